//! The lifecycle world: real keys driven through the public API, one JSON
//! event (op, arguments, result, projected state, observations) per call.

use std::collections::{BTreeMap, HashMap};
use std::panic::{catch_unwind, AssertUnwindSafe};
use std::sync::Arc;

use cosmian_cover_crypt::{
    api::Covercrypt, traits::KemAc, AccessPolicy, CleartextHeader, EncryptedHeader, EncryptionHint, Error,
    MasterPublicKey, MasterSecretKey, QualifiedAttribute, UserSecretKey, XEnc,
};
use cosmian_crypto_core::{bytes_ser_de::Serializable, Secret};
use serde_json::{json, Value};

use crate::util::{collect_fps, Renamer, Sink};

pub fn err_kind(e: &Error) -> &'static str {
    match e {
        Error::Kem(_) => "Kem",
        Error::CryptoCoreError(_) => "CryptoCore",
        Error::KeyError(_) => "KeyError",
        Error::AttributeNotFound(_) => "AttributeNotFound",
        Error::ExistingDimension(_) => "ExistingDimension",
        Error::OperationNotPermitted(_) => "OperationNotPermitted",
        Error::InvalidBooleanExpression(_) => "InvalidBooleanExpression",
        Error::InvalidAttribute(_) => "InvalidAttribute",
        Error::DimensionNotFound(_) => "DimensionNotFound",
        Error::ConversionFailed(_) => "ConversionFailed",
        Error::Tracing(_) => "Tracing",
    }
}

/// Builds the policy string handed to the real parser from a DNF
/// `[[[dim,name],...],...]`.
pub fn dnf_to_src(pol: &Value) -> String {
    let clauses = pol.as_array().cloned().unwrap_or_default();
    if clauses.iter().any(|c| c.as_array().map_or(true, |a| a.is_empty())) {
        return "*".to_string();
    }
    clauses
        .iter()
        .map(|c| {
            let atoms = c
                .as_array()
                .unwrap()
                .iter()
                .map(|a| {
                    format!(
                        "{}::{}",
                        a[0].as_str().unwrap_or("?"),
                        a[1].as_str().unwrap_or("?")
                    )
                })
                .collect::<Vec<_>>();
            if clauses.len() > 1 && atoms.len() > 1 {
                format!("({})", atoms.join(" && "))
            } else {
                atoms.join(" && ")
            }
        })
        .collect::<Vec<_>>()
        .join(" || ")
}

pub struct EncRec {
    pub enc: XEnc,
    pub secret: Secret<32>,
    pub ver: u64,
    pub probe: bool,
    /// DNF the encapsulation was made for (null for re-encapsulations)
    pub pol: Value,
}

pub struct World {
    pub cc: Covercrypt,
    pub msk: MasterSecretKey,
    pub mpks: Vec<MasterPublicKey>,
    pub usks: BTreeMap<String, (UserSecretKey, u64)>,
    pub encs: BTreeMap<String, EncRec>,
    pub saved: HashMap<String, Vec<u8>>,
    pub ren: Renamer,
    pub sink: Arc<Sink>,
    cache: HashMap<(String, String), (u64, u64, &'static str)>,
    ver: u64,
    pub budget_ms: u64,
    /// When false the decapsulation matrix is not computed (bulk drivers).
    pub observe: bool,
    last_msk: String,
}

fn call<T>(f: impl FnOnce() -> Result<T, Error>) -> Result<T, (String, String)> {
    match catch_unwind(AssertUnwindSafe(f)) {
        Ok(Ok(v)) => Ok(v),
        Ok(Err(e)) => Err(("err".to_string(), err_kind(&e).to_string())),
        Err(_) => Err(("panic".to_string(), "panic".to_string())),
    }
}

fn set_res(ev: &mut Value, r: &Result<(), (String, String)>) {
    match r {
        Ok(()) => ev["res"] = json!("ok"),
        Err((k, kind)) => {
            ev["res"] = json!(k);
            ev["errk"] = json!(kind);
        }
    }
}

fn s(v: &Value, k: &str) -> String {
    v[k].as_str().unwrap_or("").to_string()
}

impl World {
    pub fn new(sink: Arc<Sink>) -> Result<Self, String> {
        let cc = Covercrypt::default();
        let (msk, mpk) = cc.setup().map_err(|e| e.to_string())?;
        Ok(World {
            cc,
            msk,
            mpks: vec![mpk],
            usks: BTreeMap::new(),
            encs: BTreeMap::new(),
            saved: HashMap::new(),
            ren: Renamer::default(),
            sink,
            cache: HashMap::new(),
            ver: 1,
            budget_ms: 20_000,
            observe: true,
            last_msk: String::new(),
        })
    }

    fn bump(&mut self) -> u64 {
        self.ver += 1;
        self.ver
    }

    pub fn reset_event(&mut self) -> Value {
        let mut ev = json!({"k": "reset", "mpk": 1});
        let v = self.msk.verif_view();
        let mskv = self.ren.rename(&v);
        self.last_msk = mskv.to_string();
        ev["msk"] = mskv;
        let v = self.mpks[0].verif_view();
        ev["mpkv"] = self.ren.rename(&v);
        ev
    }

    fn policy(&self, op: &Value) -> Result<(String, AccessPolicy), (String, String)> {
        let src = if op.get("src").and_then(Value::as_str).is_some() {
            s(op, "src")
        } else {
            dnf_to_src(&op["pol"])
        };
        let parsed = call(|| AccessPolicy::parse(&src))?;
        Ok((src, parsed))
    }

    fn msk_bytes(&self) -> Option<Vec<u8>> {
        catch_unwind(AssertUnwindSafe(|| self.msk.serialize().ok().map(|b| b.to_vec())))
            .ok()
            .flatten()
    }

    fn msk_unchanged(&self, before: &Option<Vec<u8>>) -> bool {
        match before {
            Some(b) => catch_unwind(AssertUnwindSafe(|| {
                MasterSecretKey::deserialize(b).map(|m| m == self.msk).unwrap_or(false)
            }))
            .unwrap_or(false),
            None => false,
        }
    }

    fn head_fps(view: &Value) -> HashMap<String, Vec<String>> {
        let mut m = HashMap::new();
        if let Some(rights) = view["rights"].as_array() {
            for r in rights {
                let key = r["r"].to_string();
                let mut fps = Vec::new();
                if let Some(h) = r["ch"].as_array().and_then(|c| c.first()) {
                    collect_fps(h, &mut fps);
                }
                m.insert(key, fps);
            }
        }
        m
    }

    fn attach_mpk(&mut self, ev: &mut Value, mpk: MasterPublicKey) {
        let v = mpk.verif_view();
        self.mpks.push(mpk);
        ev["mpk"] = json!(self.mpks.len());
        ev["mpkv"] = self.ren.rename(&v);
    }

    /// Executes one op and returns the event describing what was observed.
    pub fn exec(&mut self, op: &Value) -> Value {
        let name = s(op, "op");
        let mut ev = op.clone();
        ev["k"] = json!("op");
        self.sink.enter(&ev, self.budget_ms);
        let before_view = self.msk.verif_view();
        match name.as_str() {
            "add_dim" => {
                let d = s(op, "d");
                let kind = s(op, "kind");
                let st = &mut self.msk.access_structure;
                let r = call(|| {
                    if kind == "H" {
                        st.add_hierarchy(d)
                    } else {
                        st.add_anarchy(d)
                    }
                });
                set_res(&mut ev, &r);
            }
            "del_dim" => {
                let d = s(op, "d");
                let st = &mut self.msk.access_structure;
                let r = call(|| st.del_dimension(&d));
                set_res(&mut ev, &r);
            }
            "add_attr" => {
                let qa = QualifiedAttribute::new(&s(op, "d"), &s(op, "n"));
                let hint = EncryptionHint::new(op["hint"].as_bool().unwrap_or(false));
                let after = op.get("after").and_then(Value::as_str).map(str::to_string);
                let st = &mut self.msk.access_structure;
                let r = call(|| st.add_attribute(qa, hint, after.as_deref()));
                set_res(&mut ev, &r);
            }
            "del_attr" => {
                let qa = QualifiedAttribute::new(&s(op, "d"), &s(op, "n"));
                let st = &mut self.msk.access_structure;
                let r = call(|| st.del_attribute(&qa));
                set_res(&mut ev, &r);
            }
            "rename" => {
                let qa = QualifiedAttribute::new(&s(op, "d"), &s(op, "n"));
                let to = s(op, "to");
                let st = &mut self.msk.access_structure;
                let r = call(|| st.rename_attribute(&qa, to));
                set_res(&mut ev, &r);
            }
            "disable" => {
                let qa = QualifiedAttribute::new(&s(op, "d"), &s(op, "n"));
                let st = &mut self.msk.access_structure;
                let r = call(|| st.disable_attribute(&qa));
                set_res(&mut ev, &r);
            }
            "update" => {
                let before = self.msk_bytes();
                let (cc, msk) = (&self.cc, &mut self.msk);
                let r = call(|| cc.update_msk(msk));
                match r {
                    Ok(mpk) => {
                        ev["res"] = json!("ok");
                        self.attach_mpk(&mut ev, mpk);
                    }
                    Err(e) => {
                        set_res(&mut ev, &Err(e));
                        ev["unchanged"] = json!(self.msk_unchanged(&before));
                    }
                }
            }
            "rekey" | "prune" => {
                let before = self.msk_bytes();
                match self.policy(op) {
                    Ok((src, ap)) => {
                        ev["src"] = json!(src);
                        let (cc, msk) = (&self.cc, &mut self.msk);
                        let r = call(|| {
                            if name == "rekey" {
                                cc.rekey(msk, &ap)
                            } else {
                                cc.prune_master_secret_key(msk, &ap)
                            }
                        });
                        match r {
                            Ok(mpk) => {
                                ev["res"] = json!("ok");
                                self.attach_mpk(&mut ev, mpk);
                            }
                            Err(e) => {
                                set_res(&mut ev, &Err(e));
                                ev["unchanged"] = json!(self.msk_unchanged(&before));
                            }
                        }
                    }
                    Err(e) => {
                        set_res(&mut ev, &Err(e));
                        ev["parse_error"] = json!(true);
                        ev["unchanged"] = json!(true);
                    }
                }
            }
            "mpk" => {
                let msk = &self.msk;
                match call(|| msk.mpk()) {
                    Ok(mpk) => {
                        ev["res"] = json!("ok");
                        self.attach_mpk(&mut ev, mpk);
                    }
                    Err(e) => set_res(&mut ev, &Err(e)),
                }
            }
            "keygen" => {
                let u = s(op, "u");
                let before = self.msk_bytes();
                match self.policy(op) {
                    Ok((src, ap)) => {
                        ev["src"] = json!(src);
                        let (cc, msk) = (&self.cc, &mut self.msk);
                        match call(|| cc.generate_user_secret_key(msk, &ap)) {
                            Ok(usk) => {
                                ev["res"] = json!("ok");
                                let v = self.bump();
                                self.usks.insert(u, (usk, v));
                            }
                            Err(e) => {
                                set_res(&mut ev, &Err(e));
                                ev["unchanged"] = json!(self.msk_unchanged(&before));
                            }
                        }
                    }
                    Err(e) => {
                        set_res(&mut ev, &Err(e));
                        ev["parse_error"] = json!(true);
                        ev["unchanged"] = json!(true);
                    }
                }
            }
            "refresh" => {
                let u = s(op, "u");
                let keep = op["keep"].as_bool().unwrap_or(true);
                let before = self.msk_bytes();
                let v = self.bump();
                if let Some((usk, ver)) = self.usks.get_mut(&u) {
                    let usk_before = usk.clone();
                    let (cc, msk) = (&self.cc, &mut self.msk);
                    let r = call(|| cc.refresh_usk(msk, usk, keep));
                    *ver = v;
                    if r.is_err() {
                        let same_usk = catch_unwind(AssertUnwindSafe(|| usk_before == *usk))
                            .unwrap_or(false);
                        set_res(&mut ev, &r);
                        ev["unchanged"] = json!(same_usk && self.msk_unchanged(&before));
                        ev["unchanged_usk"] = json!(same_usk);
                    } else {
                        set_res(&mut ev, &r);
                    }
                } else {
                    ev["res"] = json!("skip");
                }
            }
            "clone_usk" => {
                let (u, from) = (s(op, "u"), s(op, "from"));
                if let Some((usk, _)) = self.usks.get(&from) {
                    let c = usk.clone();
                    let v = self.bump();
                    self.usks.insert(u, (c, v));
                    ev["res"] = json!("ok");
                } else {
                    ev["res"] = json!("skip");
                }
            }
            "drop_usk" => {
                self.usks.remove(&s(op, "u"));
                ev["res"] = json!("ok");
            }
            "drop_enc" => {
                self.encs.remove(&s(op, "e"));
                ev["res"] = json!("ok");
            }
            "encaps" => {
                let e = s(op, "e");
                let k = op["mpk"].as_u64().unwrap_or(self.mpks.len() as u64) as usize;
                ev["mpk"] = json!(k);
                match self.policy(op) {
                    Ok((src, ap)) => {
                        ev["src"] = json!(src);
                        if k == 0 || k > self.mpks.len() {
                            ev["res"] = json!("skip");
                        } else {
                            let (cc, mpk) = (&self.cc, &self.mpks[k - 1]);
                            match call(|| cc.encaps(mpk, &ap)) {
                                Ok((secret, enc)) => {
                                    ev["res"] = json!("ok");
                                    let v = enc.verif_view();
                                    let mut fps = Vec::new();
                                    collect_fps(&v, &mut fps);
                                    let fresh: Vec<u64> =
                                        fps.iter().map(|f| self.ren.id(f)).collect();
                                    ev["fresh"] = json!(fresh);
                                    ev["encv"] = self.ren.rename(&v);
                                    ev["enc_len"] = json!(enc.serialize().map(|b| b.len()).unwrap_or(0));
                                    let ver = self.bump();
                                    self.encs.insert(e, EncRec { enc, secret, ver, probe: op["probe"].as_bool().unwrap_or(false), pol: op["pol"].clone() });
                                }
                                Err(e) => set_res(&mut ev, &Err(e)),
                            }
                        }
                    }
                    Err(e) => {
                        set_res(&mut ev, &Err(e));
                        ev["parse_error"] = json!(true);
                    }
                }
            }
            "header" => {
                // encrypted header: generation, serialization round trips of the encrypted and of the
                // cleartext header, and consistency of decryption with decapsulation for every live key
                let k = op["mpk"].as_u64().unwrap_or(self.mpks.len() as u64) as usize;
                ev["mpk"] = json!(k);
                match self.policy(op) {
                    Ok((src, ap)) => {
                        ev["src"] = json!(src);
                        if k == 0 || k > self.mpks.len() {
                            ev["res"] = json!("skip");
                        } else {
                            let md = op.get("md").and_then(Value::as_str).map(|x| x.as_bytes().to_vec());
                            let ad = op.get("ad").and_then(Value::as_str).map(|x| x.as_bytes().to_vec());
                            let (cc, mpk) = (&self.cc, &self.mpks[k - 1]);
                            match call(|| EncryptedHeader::generate(cc, mpk, &ap, md.as_deref(), ad.as_deref())) {
                                Ok((secret, hdr)) => {
                                    ev["res"] = json!("ok");
                                    let usks = &self.usks;
                                    let obs = catch_unwind(AssertUnwindSafe(|| {
                                        let bytes = hdr.serialize().map_err(|e| e.to_string())?;
                                        let mut ser = cosmian_crypto_core::bytes_ser_de::Serializer::with_capacity(hdr.length());
                                        let written = hdr.write(&mut ser).map_err(|e| e.to_string())?;
                                        let hdr2 = EncryptedHeader::deserialize(&bytes).map_err(|e| e.to_string())?;
                                        let mut rt_ok = bytes.len() == hdr.length() && written == bytes.len() && hdr2 == hdr;
                                        let mut consistent = true;
                                        let mut opened = 0;
                                        for (usk, _) in usks.values() {
                                            let d = hdr2.decrypt(cc, usk, ad.as_deref()).map_err(|e| e.to_string())?;
                                            let x = cc.decaps(usk, &hdr.encapsulation).map_err(|e| e.to_string())?;
                                            consistent &= d.is_some() == x.is_some();
                                            if let Some(c) = d {
                                                opened += 1;
                                                consistent &= c.secret == secret && c.metadata == md;
                                                // cleartext header round trip (absent and empty metadata are one value on the wire)
                                                let cb = c.serialize().map_err(|e| e.to_string())?;
                                                let c2 = CleartextHeader::deserialize(&cb).map_err(|e| e.to_string())?;
                                                let same = c2.secret == c.secret
                                                    && c2.metadata.clone().unwrap_or_default() == c.metadata.clone().unwrap_or_default();
                                                rt_ok &= cb.len() == c.length() && same;
                                            }
                                        }
                                        Ok::<_, String>(json!({"rt_ok": rt_ok, "consistent": consistent, "opened": opened, "len": bytes.len()}))
                                    }));
                                    ev["hdr"] = match obs {
                                        Ok(Ok(v)) => v,
                                        Ok(Err(e)) => json!({"rt_ok": false, "consistent": false, "opened": 0, "error": e}),
                                        Err(_) => json!({"rt_ok": false, "consistent": false, "opened": 0, "error": "panic"}),
                                    };
                                }
                                Err(e) => set_res(&mut ev, &Err(e)),
                            }
                        }
                    }
                    Err(e) => {
                        set_res(&mut ev, &Err(e));
                        ev["parse_error"] = json!(true);
                    }
                }
            }
            "recaps" => {
                let (e, from) = (s(op, "e"), s(op, "from"));
                let k = op["mpk"].as_u64().unwrap_or(self.mpks.len() as u64) as usize;
                ev["mpk"] = json!(k);
                if k == 0 || k > self.mpks.len() || !self.encs.contains_key(&from) {
                    ev["res"] = json!("skip");
                } else {
                    let (cc, msk, mpk, old) =
                        (&self.cc, &self.msk, &self.mpks[k - 1], &self.encs[&from].enc);
                    match call(|| cc.recaps(msk, mpk, old)) {
                        Ok((secret, enc)) => {
                            ev["res"] = json!("ok");
                            let v = enc.verif_view();
                            let mut fps = Vec::new();
                            collect_fps(&v, &mut fps);
                            let fresh: Vec<u64> = fps.iter().map(|f| self.ren.id(f)).collect();
                            ev["fresh"] = json!(fresh);
                            ev["encv"] = self.ren.rename(&v);
                            ev["same_secret"] = json!(secret == self.encs[&from].secret);
                            let ver = self.bump();
                            self.encs.insert(e, EncRec { enc, secret, ver, probe: false, pol: Value::Null });
                        }
                        Err(e) => set_res(&mut ev, &Err(e)),
                    }
                }
            }
            "save_msk" => {
                if let Some(b) = self.msk_bytes() {
                    self.saved.insert(s(op, "slot"), b);
                    ev["res"] = json!("ok");
                } else {
                    ev["res"] = json!("err");
                }
            }
            "restore_msk" => {
                if let Some(b) = self.saved.get(&s(op, "slot")) {
                    match call(|| MasterSecretKey::deserialize(b)) {
                        Ok(m) => {
                            self.msk = m;
                            ev["res"] = json!("ok");
                        }
                        Err(e) => set_res(&mut ev, &Err(e)),
                    }
                } else {
                    ev["res"] = json!("skip");
                }
            }
            "roundtrip" => self.roundtrip(op, &mut ev),
            _ => {
                ev["res"] = json!("skip");
            }
        }
        // Projected state after the call.
        let after_view = self.msk.verif_view();
        if matches!(name.as_str(), "update" | "rekey") && ev["res"] == "ok" {
            // Values created by this call: heads that were not heads before.
            let (b, a) = (Self::head_fps(&before_view), Self::head_fps(&after_view));
            let mut fresh = Vec::new();
            for (r, fps) in &a {
                if b.get(r) != Some(fps) {
                    let old = b.get(r).cloned().unwrap_or_default();
                    for f in fps {
                        if !old.contains(f) {
                            fresh.push(self.ren.id(f));
                        }
                    }
                }
            }
            fresh.sort_unstable();
            ev["fresh"] = json!(fresh);
        }
        // shapes (chain lengths, flags, flavours) for the conformance check of the lifecycle model
        {
            let mut items: Vec<String> = after_view["rights"]
                .as_array()
                .cloned()
                .unwrap_or_default()
                .iter()
                .map(|r| {
                    let ch = r["ch"].as_array().cloned().unwrap_or_default();
                    format!(
                        "{}:{}:{}",
                        ch.len(),
                        ch.first().map_or(0, |h| h["a"].as_bool().unwrap_or(false) as u8),
                        ch.first().map_or(0, |h| h["h"].as_bool().unwrap_or(false) as u8)
                    )
                })
                .collect();
            items.sort();
            ev["shape"] = json!({"msk": items.join(",")});
            if let Some(u) = op.get("u").and_then(Value::as_str) {
                if let Some((usk, _)) = self.usks.get(u) {
                    let mut lens: Vec<usize> = usk.verif_view()["ch"]
                        .as_array()
                        .cloned()
                        .unwrap_or_default()
                        .iter()
                        .map(|c| c["c"].as_array().map_or(0, Vec::len))
                        .collect();
                    lens.sort_unstable();
                    ev["shape"]["usk"] = json!(lens.iter().map(|x| x.to_string()).collect::<Vec<_>>().join(","));
                }
            }
        }
        let mskv = self.ren.rename(&after_view);
        let txt = mskv.to_string();
        if txt != self.last_msk {
            ev["msk"] = mskv;
            self.last_msk = txt;
        }
        if let Some(u) = op.get("u").and_then(Value::as_str) {
            if let Some((usk, _)) = self.usks.get(u) {
                let v = usk.verif_view();
                let chk = self.msk.verif_check_usk(usk);
                if name == "keygen" && ev["res"] == "ok" {
                    let id = v["id"].as_str().unwrap_or("").to_string();
                    ev["fresh"] = json!([self.ren.id(&id)]);
                }
                ev["uskv"] = self.ren.rename(&v);
                ev["chk"] = chk;
                ev["usk_len"] = json!(usk.serialize().map(|b| b.len()).unwrap_or(0));
            }
        }
        if self.observe {
            ev["opens"] = self.opens();
        }
        self.sink.leave();
        ev
    }

    fn roundtrip(&mut self, op: &Value, ev: &mut Value) {
        fn rt<T: Serializable + PartialEq>(x: &T) -> Result<(T, Value), (String, String)>
        where
            T::Error: std::fmt::Display,
        {
            let r = catch_unwind(AssertUnwindSafe(|| {
                let bytes = x.serialize().map_err(|e| e.to_string())?;
                let mut ser =
                    cosmian_crypto_core::bytes_ser_de::Serializer::with_capacity(x.length());
                let written = x.write(&mut ser).map_err(|e| e.to_string())?;
                let y = T::deserialize(&bytes).map_err(|e| e.to_string())?;
                let bytes2 = y.serialize().map_err(|e| e.to_string())?;
                let obs = json!({
                    "len_ok": bytes.len() == x.length(),
                    "write_ok": written == bytes.len(),
                    "eq_ok": &y == x,
                    "relen_ok": bytes2.len() == bytes.len(),
                    "len": bytes.len(),
                });
                Ok::<_, String>((y, obs))
            }));
            match r {
                Ok(Ok(v)) => Ok(v),
                Ok(Err(e)) => Err(("err".to_string(), e)),
                Err(_) => Err(("panic".to_string(), "panic".to_string())),
            }
        }
        let obj = s(op, "obj");
        let res: Result<Value, (String, String)> = if obj == "msk" {
            rt(&self.msk).map(|(y, o)| {
                self.msk = y;
                o
            })
        } else if obj == "mpk" {
            let k = op["mpk"].as_u64().unwrap_or(self.mpks.len() as u64) as usize;
            if k == 0 || k > self.mpks.len() {
                Err(("skip".into(), "skip".into()))
            } else {
                rt(&self.mpks[k - 1]).map(|(y, o)| {
                    self.mpks[k - 1] = y;
                    o
                })
            }
        } else if obj == "usk" {
            let u = s(op, "u");
            let v = self.bump();
            match self.usks.get_mut(&u) {
                Some((usk, ver)) => rt(usk).map(|(y, o)| {
                    *usk = y;
                    *ver = v;
                    o
                }),
                None => Err(("skip".into(), "skip".into())),
            }
        } else if obj == "enc" {
            let e = s(op, "e");
            let v = self.bump();
            match self.encs.get_mut(&e) {
                Some(rec) => rt(&rec.enc).map(|(y, o)| {
                    rec.enc = y;
                    rec.ver = v;
                    o
                }),
                None => Err(("skip".into(), "skip".into())),
            }
        } else if obj == "st" {
            rt(&self.msk.access_structure).map(|(y, o)| {
                self.msk.access_structure = y;
                o
            })
        } else {
            Err(("skip".into(), "skip".into()))
        };
        match res {
            Ok(o) => {
                ev["res"] = json!("ok");
                ev["rt"] = o;
            }
            Err((k, kind)) => {
                ev["res"] = json!(k);
                ev["errk"] = json!(kind);
            }
        }
    }

    /// Decapsulation matrix: every live user key against every kept
    /// encapsulation (cached per object version).
    pub fn opens(&mut self) -> Value {
        let mut rows = Vec::new();
        for (u, (usk, uver)) in &self.usks {
            for (e, rec) in &self.encs {
                let key = (u.clone(), e.clone());
                let r = match self.cache.get(&key) {
                    Some((a, b, r)) if a == uver && *b == rec.ver => *r,
                    _ => {
                        let cc = &self.cc;
                        let r: &'static str =
                            match catch_unwind(AssertUnwindSafe(|| cc.decaps(usk, &rec.enc))) {
                                Ok(Ok(Some(x))) => {
                                    if x == rec.secret {
                                        "same"
                                    } else {
                                        "diff"
                                    }
                                }
                                Ok(Ok(None)) => "none",
                                Ok(Err(_)) => "err",
                                Err(_) => "panic",
                            };
                        self.cache.insert(key, (*uver, rec.ver, r));
                        r
                    }
                };
                rows.push(json!({"u": u, "e": e, "r": r, "p": rec.probe}));
            }
        }
        Value::Array(rows)
    }

    /// Structure as the driver sees it: (dim, kind, [names in rank order]).
    pub fn structure(&self) -> Vec<(String, String, Vec<(String, u64, bool, bool)>)> {
        let v = self.msk.access_structure.verif_view();
        v.as_array()
            .cloned()
            .unwrap_or_default()
            .iter()
            .map(|d| {
                (
                    s(d, "d"),
                    s(d, "kind"),
                    d["attrs"]
                        .as_array()
                        .cloned()
                        .unwrap_or_default()
                        .iter()
                        .map(|a| {
                            (
                                s(a, "n"),
                                a["id"].as_u64().unwrap_or(0),
                                a["h"].as_bool().unwrap_or(false),
                                a["a"].as_bool().unwrap_or(true),
                            )
                        })
                        .collect(),
                )
            })
            .collect()
    }
}
