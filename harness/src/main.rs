//! cc-harness: executes histories and input families on the real
//! cover_crypt library and writes observed ndjson traces / verdicts that the
//! TLA+ trace specifications validate.

mod driver;
mod golden;
mod sat;
mod util;
mod world;

#[global_allocator]
static A: sat::wire::CountingAlloc = sat::wire::CountingAlloc;

use std::fs::File;
use std::io::BufWriter;

use util::{arg_flag, arg_u64, arg_val, quiet_panics, Sink};

fn open_sink(args: &[String]) -> std::sync::Arc<Sink> {
    let out: Box<dyn std::io::Write + Send> = match arg_val(args, "--out") {
        Some(p) => Box::new(BufWriter::new(File::create(&p).expect("cannot create output"))),
        None => Box::new(BufWriter::new(std::io::stdout())),
    };
    let sink = Sink::new(out);
    sink.spawn_watchdog();
    sink
}

fn main() {
    let args: Vec<String> = std::env::args().collect();
    if args.len() < 2 {
        eprintln!("usage: cc-harness <replay|random|...> [options]");
        std::process::exit(2);
    }
    if std::env::var("CC_PANIC_MSG").is_err() {
        quiet_panics();
    }
    let r = match args[1].as_str() {
        "replay" => {
            let ops = arg_val(&args, "--ops").expect("--ops");
            let sink = open_sink(&args);
            driver::replay(&ops, sink, !arg_flag(&args, "--no-probes")).map(|n| {
                eprintln!("replayed {n} histories");
            })
        }
        "random" => {
            let p = driver::profile(&arg_val(&args, "--profile").unwrap_or("full".into()));
            let mut p = p;
            if let Some(s) = arg_val(&args, "--steps") {
                p.steps = s.parse().unwrap_or(p.steps);
            }
            let seed = arg_u64(&args, "--seed", 1);
            let from = arg_u64(&args, "--from", 0);
            let to = arg_u64(&args, "--to", 10);
            let sink = open_sink(&args);
            driver::random(&p, seed, from, to, sink).map(|n| {
                eprintln!("ran {n} histories");
            })
        }
        "golden-gen" => {
            let out = arg_val(&args, "--out").expect("--out");
            let v = golden::generate();
            std::fs::write(&out, serde_json::to_string(&v).unwrap()).map_err(|e| e.to_string())
        }
        "golden-check" => {
            let inp = arg_val(&args, "--in").expect("--in");
            std::fs::read_to_string(&inp)
                .map_err(|e| e.to_string())
                .and_then(|t| serde_json::from_str::<serde_json::Value>(&t).map_err(|e| e.to_string()))
                .map(|g| {
                    let (n, fails) = golden::check(&g);
                    println!("{}", serde_json::json!({"checks": n, "failures": fails}));
                })
        }
        "policy" => sat::policy::run(&args),
        "uskmac" => sat::uskmac::run(&args),
        "tamper" => sat::tamper::run(&args),
        "conc" => sat::conc::run(&args),
        "fresh" => sat::conc::fresh(&args),
        "pke" => sat::pke::run(&args),
        "wire" => sat::wire::run(&args),
        "features" => {
            println!("{}", if cfg!(feature = "cfg-alt") { "alt" } else { "default" });
            Ok(())
        }
        other => Err(format!("unknown subcommand {other}")),
    };
    if let Err(e) = r {
        eprintln!("cc-harness: {e}");
        std::process::exit(2);
    }
}
