//! C08: byte-level twins of the tamper kinds of UskMac.tla applied to real
//! issued user keys, each tampered key offered to `refresh_usk`.
//!
//! The layout cutter below is used for MUTATION only; whether a mutant is a
//! user key at all is decided by the real deserializer, whether it equals the
//! issued key by the real `PartialEq`, acceptance by the real `refresh_usk`.

use std::io::Write;
use std::panic::{catch_unwind, AssertUnwindSafe};

use cosmian_cover_crypt::{
    api::Covercrypt, AccessPolicy, EncryptionHint, MasterSecretKey, QualifiedAttribute, UserSecretKey,
};
use cosmian_crypto_core::bytes_ser_de::Serializable;
use serde_json::{json, Value};

use crate::util::{arg_u64, arg_val, Rng};

const SK: usize = 32;
const PT: usize = 32;
const SIG: usize = 32;
#[cfg(feature = "cfg-alt")]
const DK: usize = 2400;
#[cfg(not(feature = "cfg-alt"))]
const DK: usize = 1632;

#[derive(Clone, Debug, PartialEq)]
struct Secret {
    hyb: bool,
    sk: Vec<u8>,
    dk: Vec<u8>,
}
#[derive(Clone, Debug, PartialEq)]
struct Right {
    name: Vec<u8>,
    chain: Vec<Secret>,
}
#[derive(Clone, Debug, PartialEq)]
struct Layout {
    id: Vec<Vec<u8>>,
    ps: Vec<Vec<u8>>,
    rights: Vec<Right>,
    sig: Option<Vec<u8>>,
}

fn leb(mut n: u64, out: &mut Vec<u8>) {
    loop {
        let b = (n & 0x7f) as u8;
        n >>= 7;
        if n == 0 {
            out.push(b);
            break;
        }
        out.push(b | 0x80);
    }
}

fn unleb(b: &[u8], pos: &mut usize) -> Option<u64> {
    let mut r = 0u64;
    let mut shift = 0;
    loop {
        let x = *b.get(*pos)?;
        *pos += 1;
        r |= ((x & 0x7f) as u64) << shift;
        if x & 0x80 == 0 {
            return Some(r);
        }
        shift += 7;
        if shift > 63 {
            return None;
        }
    }
}

fn take(b: &[u8], pos: &mut usize, n: usize) -> Option<Vec<u8>> {
    let s = b.get(*pos..*pos + n)?.to_vec();
    *pos += n;
    Some(s)
}

impl Layout {
    fn cut(b: &[u8]) -> Option<Layout> {
        let mut p = 0;
        let n = unleb(b, &mut p)? as usize;
        let id = (0..n).map(|_| take(b, &mut p, SK)).collect::<Option<Vec<_>>>()?;
        let n = unleb(b, &mut p)? as usize;
        let ps = (0..n).map(|_| take(b, &mut p, PT)).collect::<Option<Vec<_>>>()?;
        let n = unleb(b, &mut p)? as usize;
        let mut rights = Vec::new();
        for _ in 0..n {
            let l = unleb(b, &mut p)? as usize;
            let name = take(b, &mut p, l)?;
            let k = unleb(b, &mut p)? as usize;
            let mut chain = Vec::new();
            for _ in 0..k {
                let flag = take(b, &mut p, 1)?[0];
                let sk = take(b, &mut p, SK)?;
                let dk = if flag == 1 { take(b, &mut p, DK)? } else { vec![] };
                chain.push(Secret { hyb: flag == 1, sk, dk });
            }
            rights.push(Right { name, chain });
        }
        let sig = if b.len() - p >= SIG { Some(take(b, &mut p, SIG)?) } else { None };
        if p != b.len() {
            return None;
        }
        Some(Layout { id, ps, rights, sig })
    }

    fn bytes(&self) -> Vec<u8> {
        let mut o = Vec::new();
        leb(self.id.len() as u64, &mut o);
        self.id.iter().for_each(|m| o.extend_from_slice(m));
        leb(self.ps.len() as u64, &mut o);
        self.ps.iter().for_each(|m| o.extend_from_slice(m));
        leb(self.rights.len() as u64, &mut o);
        for r in &self.rights {
            leb(r.name.len() as u64, &mut o);
            o.extend_from_slice(&r.name);
            leb(r.chain.len() as u64, &mut o);
            for s in &r.chain {
                o.push(s.hyb as u8);
                o.extend_from_slice(&s.sk);
                o.extend_from_slice(&s.dk);
            }
        }
        if let Some(s) = &self.sig {
            o.extend_from_slice(s);
        }
        o
    }

    /// The MAC input as `primitives::sign` builds it.
    fn mac_input(&self) -> Vec<u8> {
        let mut o = Vec::new();
        self.id.iter().for_each(|m| o.extend_from_slice(m));
        for r in &self.rights {
            o.extend_from_slice(&r.name);
            o.extend_from_slice(&chain_bytes(&r.chain));
        }
        o
    }
}

fn chain_bytes(ch: &[Secret]) -> Vec<u8> {
    let mut o = Vec::new();
    for s in ch {
        o.extend_from_slice(&s.sk);
        o.extend_from_slice(&s.dk);
    }
    o
}

/// Re-cuts a chain over new bytes keeping its flavours.
fn recut(ch: &[Secret], bytes: &[u8]) -> Vec<Secret> {
    let mut p = 0;
    ch.iter()
        .map(|s| {
            let sk = bytes[p..p + SK].to_vec();
            p += SK;
            let dk = if s.hyb { bytes[p..p + DK].to_vec() } else { vec![] };
            p += dk.len();
            Secret { hyb: s.hyb, sk, dk }
        })
        .collect()
}

/// Byte-level twin of UskMac!Apply. Returns None when not applicable.
fn apply(kind: &str, k: &Layout, i: usize) -> Option<Layout> {
    let n = k.rights.len();
    if i >= n && !matches!(kind, "alter_sig" | "alter_id") {
        return None;
    }
    let mut o = k.clone();
    match kind {
        "identity" => (i == 0).then_some(o),
        "merge_into_next" => {
            if i + 1 >= n {
                return None;
            }
            let mut name = k.rights[i].name.clone();
            name.extend_from_slice(&chain_bytes(&k.rights[i].chain));
            name.extend_from_slice(&k.rights[i + 1].name);
            o.rights[i + 1].name = name;
            o.rights.remove(i);
            Some(o)
        }
        "shift_name_to_secret" => {
            if i + 1 >= n || k.rights[i].name.is_empty() {
                return None;
            }
            let mut bytes = vec![*k.rights[i].name.last().unwrap()];
            bytes.extend_from_slice(&chain_bytes(&k.rights[i].chain));
            let spill = bytes.pop().unwrap();
            o.rights[i].name.pop();
            o.rights[i].chain = recut(&k.rights[i].chain, &bytes);
            o.rights[i + 1].name.insert(0, spill);
            Some(o)
        }
        "shift_secret_to_name" => {
            if i + 1 >= n || k.rights[i + 1].name.is_empty() {
                return None;
            }
            let mut bytes = chain_bytes(&k.rights[i].chain);
            bytes.push(k.rights[i + 1].name[0]);
            let first = bytes.remove(0);
            o.rights[i].name.push(first);
            o.rights[i].chain = recut(&k.rights[i].chain, &bytes);
            o.rights[i + 1].name.remove(0);
            Some(o)
        }
        "split_chain" => {
            if k.rights[i].chain.len() < 2 {
                return None;
            }
            let rest = o.rights[i].chain.split_off(1);
            o.rights.insert(i + 1, Right { name: vec![], chain: rest });
            Some(o)
        }
        "flavour_down_spill" => {
            if i + 1 >= n || !k.rights[i].chain.last()?.hyb {
                return None;
            }
            let last = o.rights[i].chain.last_mut().unwrap();
            let dk = std::mem::take(&mut last.dk);
            last.hyb = false;
            let mut name = dk;
            name.extend_from_slice(&k.rights[i + 1].name);
            o.rights[i + 1].name = name;
            Some(o)
        }
        "move_secret_to_nameless_next" | "move_secret_to_next" => {
            if i + 1 >= n || k.rights[i].chain.len() < 2 {
                return None;
            }
            let nameless = k.rights[i + 1].name.is_empty();
            if nameless != (kind == "move_secret_to_nameless_next") {
                return None;
            }
            let s = o.rights[i].chain.pop().unwrap();
            o.rights[i + 1].chain.insert(0, s);
            Some(o)
        }
        "reorder" => {
            if i + 1 >= n || k.rights[i] == k.rights[i + 1] {
                return None;
            }
            o.rights.swap(i, i + 1);
            Some(o)
        }
        "drop_right" => {
            if n < 2 {
                return None;
            }
            o.rights.remove(i);
            Some(o)
        }
        "dup_right" => {
            o.rights.insert(i, k.rights[i].clone());
            Some(o)
        }
        "rename" => {
            let l = o.rights[i].name.len();
            if l == 0 {
                return None;
            }
            o.rights[i].name[l - 1] ^= 0x01;
            Some(o)
        }
        "drop_secret" => {
            if k.rights[i].chain.len() < 2 {
                return None;
            }
            o.rights[i].chain.pop();
            Some(o)
        }
        "flip_flag_truncate" => {
            let last = o.rights[i].chain.last_mut()?;
            if !last.hyb {
                return None;
            }
            last.hyb = false;
            last.dk.clear();
            Some(o)
        }
        "split_chain_keep_name" => {
            if k.rights[i].chain.len() < 2 || k.rights[i].name.is_empty() {
                return None;
            }
            let rest = o.rights[i].chain.split_off(1);
            o.rights.insert(i + 1, Right { name: k.rights[i].name.clone(), chain: rest });
            Some(o)
        }
        "swap_secrets_in_chain" => {
            if k.rights[i].chain.len() < 2 || k.rights[i].chain[0] == k.rights[i].chain[1] {
                return None;
            }
            o.rights[i].chain.swap(0, 1);
            Some(o)
        }
        "swap_heads_across" => {
            if i + 1 >= n || k.rights[i].chain[0] == k.rights[i + 1].chain[0] || k.rights[i].chain[0].hyb != k.rights[i + 1].chain[0].hyb {
                return None;
            }
            let a = k.rights[i].chain[0].clone();
            o.rights[i].chain[0] = k.rights[i + 1].chain[0].clone();
            o.rights[i + 1].chain[0] = a;
            Some(o)
        }
        "add_right" => {
            if i != 0 {
                return None;
            }
            // a right the key does not have, with a secret copied from another right
            let s = k.rights[0].chain[0].clone();
            o.rights.push(Right { name: vec![0x7e], chain: vec![s] });
            Some(o)
        }
        "strip_sig" => {
            if i != 0 {
                return None;
            }
            o.sig = None;
            Some(o)
        }
        "alter_sig" => {
            if i >= SIG {
                return None;
            }
            let s = o.sig.as_mut()?;
            s[i] ^= 0x01;
            Some(o)
        }
        "alter_id" => {
            if i >= k.id.len() {
                return None;
            }
            o.id[i][0] ^= 0x01;
            Some(o)
        }
        _ => None,
    }
}

struct Issued {
    msk_bytes: Vec<u8>,
    usk: UserSecretKey,
    label: String,
}

fn build(rekeys: usize, pol: &str) -> Result<Issued, String> {
    let cc = Covercrypt::default();
    let (mut msk, _) = cc.setup().map_err(|e| e.to_string())?;
    let st = &mut msk.access_structure;
    st.add_hierarchy("D1".into()).map_err(|e| e.to_string())?;
    st.add_attribute(QualifiedAttribute::new("D1", "a"), EncryptionHint::Classic, None).map_err(|e| e.to_string())?;
    st.add_attribute(QualifiedAttribute::new("D1", "b"), EncryptionHint::Hybridized, Some("a")).map_err(|e| e.to_string())?;
    st.add_anarchy("D2".into()).map_err(|e| e.to_string())?;
    st.add_attribute(QualifiedAttribute::new("D2", "x"), EncryptionHint::Classic, None).map_err(|e| e.to_string())?;
    st.add_attribute(QualifiedAttribute::new("D2", "y"), EncryptionHint::Hybridized, None).map_err(|e| e.to_string())?;
    cc.update_msk(&mut msk).map_err(|e| e.to_string())?;
    let ap = AccessPolicy::parse(pol).map_err(|e| e.to_string())?;
    let mut usk = cc.generate_user_secret_key(&mut msk, &ap).map_err(|e| e.to_string())?;
    for r in 0..rekeys {
        let what = if r % 2 == 0 { "*" } else { "D1::a" };
        cc.rekey(&mut msk, &AccessPolicy::parse(what).unwrap()).map_err(|e| e.to_string())?;
        cc.refresh_usk(&mut msk, &mut usk, true).map_err(|e| e.to_string())?;
    }
    Ok(Issued {
        msk_bytes: msk.serialize().map_err(|e| e.to_string())?.to_vec(),
        usk,
        label: format!("{pol} after {rekeys} rekeys"),
    })
}

fn offer(cc: &Covercrypt, iss: &Issued, orig: &Layout, mutant_bytes: &[u8], kind: &str, pos: usize, keep: bool) -> Value {
    let mut rec = json!({"kind": kind, "pos": pos, "keep": keep, "key": iss.label, "len": mutant_bytes.len()});
    let parsed = catch_unwind(AssertUnwindSafe(|| UserSecretKey::deserialize(mutant_bytes)));
    let mut mutant = match parsed {
        Ok(Ok(u)) => u,
        _ => {
            rec["parsed"] = json!(false);
            rec["accepted"] = json!(false);
            rec["unchanged"] = json!(true);
            rec["same_key"] = json!(false);
            rec["mac_equal"] = json!(false);
            return rec;
        }
    };
    rec["parsed"] = json!(true);
    rec["same_key"] = json!(mutant == iss.usk);
    let ml = Layout::cut(&mutant.serialize().map(|b| b.to_vec()).unwrap_or_default());
    rec["mac_equal"] = json!(ml.as_ref().map(|m| m.mac_input() == orig.mac_input() && m.sig == orig.sig).unwrap_or(false));
    let mut msk = MasterSecretKey::deserialize(&iss.msk_bytes).expect("msk");
    let before_usk = mutant.clone();
    let r = catch_unwind(AssertUnwindSafe(|| cc.refresh_usk(&mut msk, &mut mutant, keep)));
    let accepted = matches!(r, Ok(Ok(())));
    rec["accepted"] = json!(accepted);
    rec["panicked"] = json!(r.is_err());
    let msk_same = MasterSecretKey::deserialize(&iss.msk_bytes).map(|m| m == msk).unwrap_or(false);
    rec["unchanged"] = json!(accepted || (msk_same && before_usk == mutant));
    rec
}

pub fn run(args: &[String]) -> Result<(), String> {
    let cases = arg_val(args, "--cases").ok_or("--cases")?;
    let out = arg_val(args, "--out").ok_or("--out")?;
    let seed = arg_u64(args, "--seed", 1);
    let rounds = arg_u64(args, "--rounds", 3) as usize;
    let mut rng = Rng::new(seed);
    let kinds: Vec<Value> = std::fs::read_to_string(&cases)
        .map_err(|e| e.to_string())?
        .lines()
        .filter_map(|l| serde_json::from_str(l).ok())
        .collect();
    let mut w = std::io::BufWriter::new(std::fs::File::create(&out).map_err(|e| e.to_string())?);
    let cc = Covercrypt::default();
    let pols = ["D1::b && D2::y", "D2::x", "*", "D1::a", "D1::b || D2::y"];
    let mut n = 0u64;
    for round in 0..rounds {
        for (pi, pol) in pols.iter().enumerate() {
            let rekeys = (round + pi) % 3;
            let iss = build(rekeys, pol)?;
            let other = build(rekeys, pols[(pi + 1) % pols.len()])?; // another master key
            let bytes = iss.usk.serialize().map_err(|e| e.to_string())?.to_vec();
            let orig = Layout::cut(&bytes).ok_or("layout cutter disagrees with the serialized user key")?;
            if orig.bytes() != bytes {
                return Err("layout cutter does not re-serialize the user key identically".into());
            }
            // a second key of the SAME master key, for splices
            let mut msk = MasterSecretKey::deserialize(&iss.msk_bytes).map_err(|e| e.to_string())?;
            let sib = cc
                .generate_user_secret_key(&mut msk, &AccessPolicy::parse(pols[(pi + 2) % pols.len()]).unwrap())
                .map_err(|e| e.to_string())?;
            let iss = Issued { msk_bytes: msk.serialize().map_err(|e| e.to_string())?.to_vec(), ..iss };
            let sib_l = Layout::cut(&sib.serialize().map_err(|e| e.to_string())?).ok_or("cutter")?;
            for k in &kinds {
                let kind = k["kind"].as_str().unwrap_or("");
                let mut mutants: Vec<(usize, Vec<u8>)> = Vec::new();
                match kind {
                    "foreign_key" => mutants.push((0, other.usk.serialize().map_err(|e| e.to_string())?.to_vec())),
                    "splice_rights" => {
                        let mut m = orig.clone();
                        m.rights = sib_l.rights.clone();
                        mutants.push((0, m.bytes()));
                    }
                    "swap_sig" => {
                        let mut m = orig.clone();
                        m.sig = sib_l.sig.clone();
                        mutants.push((0, m.bytes()));
                    }
                    _ => {
                        let mut positions: Vec<usize> = (0..orig.rights.len().max(SIG)).collect();
                        // seeded order, bounded number of positions per kind and key
                        for i in (1..positions.len()).rev() {
                            positions.swap(i, rng.below(i + 1));
                        }
                        let mut done = 0;
                        for pos in positions {
                            if let Some(m) = apply(kind, &orig, pos) {
                                mutants.push((pos, m.bytes()));
                                done += 1;
                                if done >= 6 {
                                    break;
                                }
                            }
                        }
                    }
                }
                for (pos, mb) in mutants {
                    for keep in [true, false] {
                        let rec = offer(&cc, &iss, &orig, &mb, kind, pos, keep);
                        writeln!(w, "{rec}").map_err(|e| e.to_string())?;
                        n += 1;
                    }
                }
            }
        }
    }
    w.flush().map_err(|e| e.to_string())?;
    eprintln!("uskmac: {n} offers");
    Ok(())
}
