//! placeholder, filled in by the pke satellite
pub fn run(_args: &[String]) -> Result<(), String> {
    Err("pke satellite not built yet".into())
}
