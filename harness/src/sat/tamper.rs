//! C07: byte-level twins of the tamper actions of Tamper.tla on real
//! serialized encapsulations; every mutant is deserialized by the real code
//! and decapsulated with an authorised key for the first target, one for the
//! last target and an unauthorised key.
//!
//! The layout cutter is used for mutation only.

use std::io::Write;
use std::panic::{catch_unwind, AssertUnwindSafe};

use cosmian_cover_crypt::{
    api::Covercrypt, traits::KemAc, AccessPolicy, EncryptionHint, QualifiedAttribute, UserSecretKey, XEnc,
};
use cosmian_crypto_core::bytes_ser_de::Serializable;
use serde_json::{json, Value};

use crate::util::{arg_flag, arg_u64, arg_val, hex, Rng};

const TAG: usize = 16;
const PT: usize = 32;
const F: usize = 32;
#[cfg(feature = "cfg-alt")]
const E: usize = 1088;
#[cfg(not(feature = "cfg-alt"))]
const E: usize = 768;

#[derive(Clone, PartialEq)]
struct Lay {
    tag: Vec<u8>,
    traps: Vec<Vec<u8>>,
    hyb: bool,
    es: Vec<Vec<u8>>,
    fs: Vec<Vec<u8>>,
}

fn leb(mut n: u64, out: &mut Vec<u8>) {
    loop {
        let b = (n & 0x7f) as u8;
        n >>= 7;
        if n == 0 {
            out.push(b);
            break;
        }
        out.push(b | 0x80);
    }
}

impl Lay {
    fn cut(b: &[u8]) -> Option<Lay> {
        let mut p = 0;
        let take = |p: &mut usize, n: usize| -> Option<Vec<u8>> {
            let s = b.get(*p..*p + n)?.to_vec();
            *p += n;
            Some(s)
        };
        let tag = take(&mut p, TAG)?;
        let n = *b.get(p)? as usize;
        p += 1;
        let traps = (0..n).map(|_| take(&mut p, PT)).collect::<Option<Vec<_>>>()?;
        let hyb = *b.get(p)? == 1;
        p += 1;
        let n = *b.get(p)? as usize;
        p += 1;
        let mut es = Vec::new();
        let mut fs = Vec::new();
        for _ in 0..n {
            if hyb {
                es.push(take(&mut p, E)?);
            }
            fs.push(take(&mut p, F)?);
        }
        (p == b.len()).then_some(Lay { tag, traps, hyb, es, fs })
    }

    fn bytes(&self) -> Vec<u8> {
        let mut o = self.tag.clone();
        leb(self.traps.len() as u64, &mut o);
        self.traps.iter().for_each(|t| o.extend_from_slice(t));
        o.push(self.hyb as u8);
        leb(self.fs.len() as u64, &mut o);
        for j in 0..self.fs.len() {
            if self.hyb {
                if let Some(e) = self.es.get(j) {
                    o.extend_from_slice(e);
                }
            }
            o.extend_from_slice(&self.fs[j]);
        }
        o
    }
}

/// One concrete choice of where/how a corrupt action hits.
#[derive(Clone, Copy)]
struct Hit {
    pos: usize,
    mask: u8,
}

fn corrupt(v: &mut [u8], h: Hit) {
    if v.is_empty() {
        return;
    }
    let p = h.pos % v.len();
    v[p] ^= h.mask;
}

/// Applies one abstract action; `hit` parametrises corrupt actions.
fn act(a: &Value, l: &Lay, other: &Lay, hit: Hit) -> Option<Lay> {
    let name = a["a"].as_str()?;
    let i = a["i"].as_u64().unwrap_or(1) as usize;
    let j = a["j"].as_u64().unwrap_or(1) as usize;
    let mut o = l.clone();
    let (i0, j0) = (i.wrapping_sub(1), j.wrapping_sub(1));
    match name {
        "corrupt_tag" => corrupt(&mut o.tag, hit),
        "corrupt_trap" => corrupt(o.traps.get_mut(i0)?, hit),
        "corrupt_E" => corrupt(o.es.get_mut(i0)?, hit),
        "corrupt_F" => corrupt(o.fs.get_mut(i0)?, hit),
        "swap_traps" => {
            if o.traps.len() < 2 {
                return None;
            }
            o.traps.swap(0, 1)
        }
        "drop_trap" => {
            if i0 >= o.traps.len() {
                return None;
            }
            o.traps.remove(i0);
        }
        "dup_trap" => {
            let t = o.traps.get(i0)?.clone();
            o.traps.insert(i0, t);
        }
        "swap_entries" => {
            if i0 >= o.fs.len() || j0 >= o.fs.len() {
                return None;
            }
            o.fs.swap(i0, j0);
            if i0 < o.es.len() && j0 < o.es.len() {
                o.es.swap(i0, j0);
            }
        }
        "drop_entry" => {
            if i0 >= o.fs.len() {
                return None;
            }
            o.fs.remove(i0);
            if i0 < o.es.len() {
                o.es.remove(i0);
            }
        }
        "dup_entry" => {
            let f = o.fs.get(i0)?.clone();
            o.fs.insert(i0, f);
            if i0 < o.es.len() {
                let e = o.es[i0].clone();
                o.es.insert(i0, e);
            }
        }
        "swap_E" => {
            if !o.hyb || i0 >= o.es.len() || j0 >= o.es.len() {
                return None;
            }
            o.es.swap(i0, j0)
        }
        "swap_F" => {
            if i0 >= o.fs.len() || j0 >= o.fs.len() {
                return None;
            }
            o.fs.swap(i0, j0)
        }
        "splice_tag" => o.tag = other.tag.clone(),
        "splice_traps" => o.traps = other.traps.clone(),
        "splice_entry" => {
            *o.fs.get_mut(i0)? = other.fs.get(i0)?.clone();
            if i0 < o.es.len() {
                *o.es.get_mut(i0)? = other.es.get(i0)?.clone();
            }
        }
        "splice_E" => *o.es.get_mut(i0)? = other.es.get(i0)?.clone(),
        "splice_F" => *o.fs.get_mut(i0)? = other.fs.get(i0)?.clone(),
        "flip_flavour" => o.hyb = !o.hyb,
        "count_traps" | "count_entries" => {}
        _ => return None,
    }
    Some(o)
}

struct Scene {
    cc: Covercrypt,
    keys: Vec<(&'static str, UserSecretKey)>,
    enc: Vec<u8>,
    secret: Vec<u8>,
    other: Vec<u8>,
}

fn scene(n: usize, hyb: bool) -> Result<Scene, String> {
    let cc = Covercrypt::default();
    let (mut msk, _) = cc.setup().map_err(|e| e.to_string())?;
    let st = &mut msk.access_structure;
    st.add_anarchy("D".into()).map_err(|e| e.to_string())?;
    for a in ["t1", "t2", "t3", "no"] {
        st.add_attribute(QualifiedAttribute::new("D", a), EncryptionHint::new(hyb), None)
            .map_err(|e| e.to_string())?;
    }
    let mpk = cc.update_msk(&mut msk).map_err(|e| e.to_string())?;
    let pol = if n == 1 { "D::t1" } else { "D::t1 || D::t2 || D::t3" };
    let ap = AccessPolicy::parse(pol).map_err(|e| e.to_string())?;
    let mut keys = Vec::new();
    for (k, p) in [("auth_first", "D::t1"), ("auth_last", if n == 1 { "D::t1" } else { "D::t3" }), ("unauth", "D::no")] {
        keys.push((k, cc.generate_user_secret_key(&mut msk, &AccessPolicy::parse(p).unwrap()).map_err(|e| e.to_string())?));
    }
    let (s, e) = cc.encaps(&mpk, &ap).map_err(|e| e.to_string())?;
    let (_, e2) = cc.encaps(&mpk, &ap).map_err(|e| e.to_string())?;
    Ok(Scene {
        cc,
        keys,
        enc: e.serialize().map_err(|e| e.to_string())?.to_vec(),
        secret: s.to_vec(),
        other: e2.serialize().map_err(|e| e.to_string())?.to_vec(),
    })
}

fn outcome(sc: &Scene, mutant: &[u8], key: &UserSecretKey) -> &'static str {
    let r = catch_unwind(AssertUnwindSafe(|| {
        let x = match XEnc::deserialize(mutant) {
            Ok(x) => x,
            Err(_) => return "err",
        };
        let _ = x.tracing_level();
        let _ = x.count();
        match sc.cc.decaps(key, &x) {
            Ok(Some(s)) => {
                if s.to_vec() == sc.secret {
                    "same"
                } else {
                    "diff"
                }
            }
            Ok(None) => "none",
            Err(_) => "err",
        }
    }));
    r.unwrap_or("panic")
}

pub fn run(args: &[String]) -> Result<(), String> {
    let cases = arg_val(args, "--cases").ok_or("--cases")?;
    let out = arg_val(args, "--out").ok_or("--out")?;
    let seed = arg_u64(args, "--seed", 1);
    let thorough = arg_flag(args, "--thorough");
    let mut rng = Rng::new(seed);
    let mut w = std::io::BufWriter::new(std::fs::File::create(&out).map_err(|e| e.to_string())?);
    let mut scenes = std::collections::HashMap::new();
    let text = std::fs::read_to_string(&cases).map_err(|e| e.to_string())?;
    let mut executed = 0u64;
    for line in text.lines() {
        let c: Value = match serde_json::from_str(line) {
            Ok(v) => v,
            Err(_) => continue,
        };
        let n = c["n"].as_u64().unwrap_or(1) as usize;
        let hyb = c["hyb"].as_bool().unwrap_or(false);
        if !scenes.contains_key(&(n, hyb)) {
            scenes.insert((n, hyb), scene(n, hyb)?);
        }
        let sc = &scenes[&(n, hyb)];
        let lay = Lay::cut(&sc.enc).ok_or("layout cutter disagrees with the serialized encapsulation")?;
        if lay.bytes() != sc.enc {
            return Err("layout cutter does not re-serialize the encapsulation identically".into());
        }
        let other = Lay::cut(&sc.other).ok_or("cutter")?;
        let actions = c["actions"].as_array().cloned().unwrap_or_default();
        let identity = c["identity"].as_bool().unwrap_or(false);
        // concretisations: which byte/bit a corrupt action hits
        let single_corrupt = actions.len() == 1 && actions[0]["a"].as_str().unwrap_or("").starts_with("corrupt");
        let mut hits: Vec<Hit> = Vec::new();
        if single_corrupt {
            let field_len = match actions[0]["a"].as_str().unwrap() {
                "corrupt_tag" => TAG,
                "corrupt_trap" => PT,
                "corrupt_E" => E,
                _ => F,
            };
            if thorough {
                for pos in 0..field_len {
                    for bit in 0..8 {
                        hits.push(Hit { pos, mask: 1 << bit });
                    }
                }
            } else {
                for pos in [0, field_len / 2, field_len - 1] {
                    for mask in [0x01u8, 0x80] {
                        hits.push(Hit { pos, mask });
                    }
                }
                for _ in 0..6 {
                    hits.push(Hit { pos: rng.below(field_len), mask: 1 << rng.below(8) });
                }
            }
        } else {
            hits.push(Hit { pos: rng.below(4096), mask: 1 << rng.below(8) });
            if thorough {
                hits.push(Hit { pos: rng.below(4096), mask: 0xff });
            }
        }
        let mut counts: Vec<[u64; 5]> = vec![[0; 5]; sc.keys.len()];
        let mut example: Vec<Option<Value>> = vec![None; sc.keys.len()];
        let mut total = 0u64;
        for h in &hits {
            let mut cur = lay.clone();
            let mut ok = true;
            for (ai, a) in actions.iter().enumerate() {
                // the second corrupt of a sequence hits elsewhere: the composition is not the identity
                let hh = if ai == 0 { *h } else { Hit { pos: h.pos.wrapping_add(7), mask: h.mask.rotate_left(3) | 0x10 } };
                match act(a, &cur, &other, hh) {
                    Some(x) => cur = x,
                    None => {
                        ok = false;
                        break;
                    }
                }
            }
            if !ok {
                continue;
            }
            let mut mutant = cur.bytes();
            // framing actions rewrite a count byte of the serialized form and leave everything else in place
            for a in actions.iter() {
                let name = a["a"].as_str().unwrap_or("");
                let d = a["d"].as_str().unwrap_or("");
                let traps_at = TAG;
                let entries_at = TAG + 1 + cur.traps.len() * PT + 1;
                let (at, n) = match name {
                    "count_traps" => (traps_at, cur.traps.len()),
                    "count_entries" => (entries_at, cur.fs.len()),
                    _ => continue,
                };
                if at < mutant.len() {
                    mutant[at] = match d {
                        "up" => (n + 1) as u8,
                        "down" => n.saturating_sub(1) as u8,
                        _ => (n + 5 + (h.pos % 90)) as u8,
                    };
                }
            }
            if (mutant == sc.enc) != identity {
                // the byte-level twin disagrees with the model about identity: report as its own class
                let rec = json!({"n": n, "hyb": hyb, "actions": c["actions"], "identity": identity, "key": "twin",
                                 "same": 0, "none": 0, "err": 0, "diff": 0, "panic": 0, "total": 0, "twin_mismatch": true});
                writeln!(w, "{rec}").map_err(|e| e.to_string())?;
                continue;
            }
            total += 1;
            for (ki, (_, key)) in sc.keys.iter().enumerate() {
                let o = outcome(sc, &mutant, key);
                executed += 1;
                let idx = match o {
                    "same" => 0,
                    "none" => 1,
                    "err" => 2,
                    "diff" => 3,
                    _ => 4,
                };
                counts[ki][idx] += 1;
                let bad = (o == "diff" || o == "panic") || (!identity && o == "same");
                if bad && example[ki].is_none() {
                    example[ki] = Some(json!({"pos": h.pos, "mask": h.mask, "mutant_head": hex(&mutant[..mutant.len().min(96)]), "len": mutant.len()}));
                }
            }
        }
        for (ki, (kname, _)) in sc.keys.iter().enumerate() {
            let key = if *kname == "unauth" { "unauth" } else { *kname };
            let mut rec = json!({"n": n, "hyb": hyb, "actions": c["actions"], "identity": identity, "key": key,
                                 "same": counts[ki][0], "none": counts[ki][1], "err": counts[ki][2],
                                 "diff": counts[ki][3], "panic": counts[ki][4], "total": total});
            if let Some(e) = &example[ki] {
                rec["example"] = e.clone();
            }
            writeln!(w, "{rec}").map_err(|e| e.to_string())?;
        }
    }
    w.flush().map_err(|e| e.to_string())?;
    eprintln!("tamper: {executed} decapsulations of mutants");
    Ok(())
}
