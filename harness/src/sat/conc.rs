//! C19 / C16: one Covercrypt instance shared by real threads.
//!
//! `conc --schedules F`: every lock-section schedule enumerated by TLC from
//! RngConc.tla is FORCED on real threads through the cfg-guarded lock
//! wrapper (a thread parks before `lock()` until the schedule grants its
//! turn); lock events are recorded while holding the lock.
//! `conc --stress N`: free-running threads, events recorded only.
//! `fresh`: long runs of identical calls (C16).

use std::collections::{HashMap, HashSet};
use std::io::Write;
use std::panic::{catch_unwind, AssertUnwindSafe};
use std::sync::mpsc;
use std::sync::{Arc, Condvar, Mutex};
use std::time::Duration;

use cosmian_cover_crypt::{
    api::Covercrypt, traits::{KemAc, PkeAc}, verif_sync, AccessPolicy, EncryptedHeader, EncryptionHint,
    MasterPublicKey, MasterSecretKey, QualifiedAttribute, UserSecretKey, XEnc,
};
use cosmian_crypto_core::{bytes_ser_de::Serializable, Aes256Gcm};
use serde_json::{json, Value};

use crate::util::{arg_u64, arg_val, collect_fps, hex, Rng};

#[derive(Default)]
struct State {
    schedule: Vec<u64>,
    pos: usize,
    forced: bool,
    stuck: bool,
    events: Vec<Value>,
    call: HashMap<u64, (String, u64)>,
}

struct Obs {
    st: Mutex<State>,
    cv: Condvar,
}

impl verif_sync::LockObserver for Obs {
    fn before_lock(&self, thread: u64) {
        if thread == 0 {
            return;
        }
        let mut st = self.st.lock().unwrap();
        let mut waited = 0;
        while st.forced && !st.stuck && st.pos < st.schedule.len() && st.schedule[st.pos] != thread {
            let (g, to) = self.cv.wait_timeout(st, Duration::from_millis(200)).unwrap();
            st = g;
            if to.timed_out() {
                waited += 1;
                if waited > 15 {
                    // the schedule cannot be realised: stop forcing so that everything drains
                    st.stuck = true;
                    self.cv.notify_all();
                }
            }
        }
    }
    fn acquired(&self, thread: u64, seq: u64) {
        if thread == 0 {
            return;
        }
        let mut st = self.st.lock().unwrap();
        let (call, sect) = {
            let e = st.call.entry(thread).or_insert(("?".into(), 0));
            e.1 += 1;
            e.clone()
        };
        st.events.push(json!({"k": "ev", "t": thread, "ev": "acq", "seq": seq, "call": call, "sect": sect}));
    }
    fn releasing(&self, thread: u64, seq: u64) {
        if thread == 0 {
            return;
        }
        let mut st = self.st.lock().unwrap();
        let (call, sect) = st.call.get(&thread).cloned().unwrap_or(("?".into(), 0));
        st.events.push(json!({"k": "ev", "t": thread, "ev": "rel", "seq": seq, "call": call, "sect": sect}));
        st.pos += 1;
        self.cv.notify_all();
    }
    fn reentrant(&self, thread: u64) {
        let mut st = self.st.lock().unwrap();
        let (call, sect) = st.call.get(&thread).cloned().unwrap_or(("?".into(), 0));
        st.events.push(json!({"k": "ev", "t": thread, "ev": "reentrant", "seq": 0, "call": call, "sect": sect}));
        st.stuck = true;
        self.cv.notify_all();
    }
}

struct Base {
    cc: Arc<Covercrypt>,
    mpk: Arc<MasterPublicKey>,
    msk_bytes: Vec<u8>,
    usk_bytes: Vec<u8>,
    enc: Arc<(XEnc, Vec<u8>)>,
}

fn base() -> Result<Base, String> {
    let cc = Covercrypt::default();
    let (mut msk, _) = cc.setup().map_err(|e| e.to_string())?;
    let st = &mut msk.access_structure;
    st.add_anarchy("D".into()).map_err(|e| e.to_string())?;
    st.add_attribute(QualifiedAttribute::new("D", "a"), EncryptionHint::Classic, None).map_err(|e| e.to_string())?;
    st.add_attribute(QualifiedAttribute::new("D", "b"), EncryptionHint::Hybridized, None).map_err(|e| e.to_string())?;
    let mpk = cc.update_msk(&mut msk).map_err(|e| e.to_string())?;
    let usk = cc.generate_user_secret_key(&mut msk, &AccessPolicy::parse("D::a").unwrap()).map_err(|e| e.to_string())?;
    let (s, e) = cc.encaps(&mpk, &AccessPolicy::parse("D::a").unwrap()).map_err(|e| e.to_string())?;
    Ok(Base {
        cc: Arc::new(cc),
        mpk: Arc::new(mpk),
        msk_bytes: msk.serialize().map_err(|e| e.to_string())?.to_vec(),
        usk_bytes: usk.serialize().map_err(|e| e.to_string())?.to_vec(),
        enc: Arc::new((e, s.to_vec())),
    })
}

/// What a thread produced, verified after the run on the main thread.
enum Product {
    Enc(XEnc, Vec<u8>),
    Pke(XEnc, Vec<u8>, Vec<u8>),
    Header(EncryptedHeader, Vec<u8>, Option<Vec<u8>>),
    HeaderAd(EncryptedHeader, Vec<u8>, Option<Vec<u8>>),
    Key(UserSecretKey),
    Refreshed,
    Decaps(bool),
    Failed(String),
}

fn run_call(call: &str, cc: &Covercrypt, mpk: &MasterPublicKey, msk: &mut MasterSecretKey, usk: &mut UserSecretKey,
            enc: &(XEnc, Vec<u8>)) -> Product {
    let ap = AccessPolicy::parse("D::a").unwrap();
    let r = catch_unwind(AssertUnwindSafe(|| -> Result<Product, String> {
        Ok(match call {
            "encaps" => {
                let (s, e) = cc.encaps(mpk, &ap).map_err(|e| e.to_string())?;
                Product::Enc(e, s.to_vec())
            }
            "encrypt" => {
                let ptx = b"same plaintext".to_vec();
                let (e, c) = PkeAc::<{ Aes256Gcm::KEY_LENGTH }, Aes256Gcm>::encrypt(cc, mpk, &ap, &ptx).map_err(|e| e.to_string())?;
                Product::Pke(e, c, ptx)
            }
            "header_md" => {
                let (s, h) = EncryptedHeader::generate(cc, mpk, &ap, Some(b"metadata"), Some(b"aad")).map_err(|e| e.to_string())?;
                Product::Header(h, s.to_vec(), Some(b"metadata".to_vec()))
            }
            "encrypt_big" => {
                // a plaintext of several hundred KiB (size-dependent code paths)
                let ptx = vec![0x5au8; 300 * 1024];
                let (e, c) = PkeAc::<{ Aes256Gcm::KEY_LENGTH }, Aes256Gcm>::encrypt(cc, mpk, &ap, &ptx).map_err(|e| e.to_string())?;
                Product::Pke(e, c, ptx)
            }
            // header with one-byte / empty / absent authentication data (value in the call name)
            x if x.starts_with("header_ad:") => {
                let v = x[10..].parse::<i64>().unwrap_or(-1);
                let ad: Option<Vec<u8>> = if v < 0 { None } else if v > 255 { Some(vec![]) } else { Some(vec![v as u8]) };
                let (s, h) = EncryptedHeader::generate(cc, mpk, &ap, Some(b"metadata"), ad.as_deref()).map_err(|e| e.to_string())?;
                Product::HeaderAd(h, s.to_vec(), ad)
            }
            "header" => {
                let (s, h) = EncryptedHeader::generate(cc, mpk, &ap, None, None).map_err(|e| e.to_string())?;
                Product::Header(h, s.to_vec(), None)
            }
            "keygen" => Product::Key(cc.generate_user_secret_key(msk, &ap).map_err(|e| e.to_string())?),
            "refresh" => {
                cc.refresh_usk(msk, usk, true).map_err(|e| e.to_string())?;
                Product::Refreshed
            }
            "rekey" => {
                cc.rekey(msk, &ap).map_err(|e| e.to_string())?;
                Product::Refreshed
            }
            "decaps_empty" => {
                // a legal wire value the library never produces: tag, traps, no entry at all -> Ok(None)
                let mut bytes = enc.0.serialize().map_err(|e| e.to_string())?.to_vec();
                let n_traps = bytes[16] as usize;
                bytes.truncate(16 + 1 + 32 * n_traps);
                bytes.push(0);
                bytes.push(0);
                let empty = XEnc::deserialize(&bytes).map_err(|e| e.to_string())?;
                let s = cc.decaps(usk, &empty).map_err(|e| e.to_string())?;
                Product::Decaps(s.is_none())
            }
            "decaps" => {
                let s = cc.decaps(usk, &enc.0).map_err(|e| e.to_string())?;
                Product::Decaps(s.map(|x| x.to_vec()) == Some(enc.1.clone()))
            }
            other => Product::Failed(format!("unknown call {other}")),
        })
    }));
    match r {
        Ok(Ok(p)) => p,
        Ok(Err(e)) => Product::Failed(e),
        Err(_) => Product::Failed("panic".into()),
    }
}

/// Runs the programs on real threads; returns (events, end record).
fn execute(b: &Base, programs: &[Vec<String>], schedule: Vec<u64>, forced: bool) -> (Vec<Value>, Value) {
    let obs = Arc::new(Obs { st: Mutex::new(State { schedule, forced, ..Default::default() }), cv: Condvar::new() });
    verif_sync::set_observer(Some(obs.clone()));
    let (tx, rx) = mpsc::channel::<(u64, Vec<Product>)>();
    for (i, prog) in programs.iter().enumerate() {
        let t = i as u64 + 1;
        let (cc, mpk, enc, tx, obs) = (b.cc.clone(), b.mpk.clone(), b.enc.clone(), tx.clone(), obs.clone());
        let (mb, ub) = (b.msk_bytes.clone(), b.usk_bytes.clone());
        let prog = prog.clone();
        std::thread::spawn(move || {
            verif_sync::set_thread_label(t);
            let mut msk = MasterSecretKey::deserialize(&mb).expect("msk");
            let mut usk = UserSecretKey::deserialize(&ub).expect("usk");
            let mut out = Vec::new();
            for call in &prog {
                obs.st.lock().unwrap().call.insert(t, (call.clone(), 0));
                out.push(run_call(call, &cc, &mpk, &mut msk, &mut usk, &enc));
            }
            let _ = tx.send((t, out));
        });
    }
    drop(tx);
    let mut products: Vec<(u64, Vec<Product>)> = Vec::new();
    let mut hang = false;
    for _ in 0..programs.len() {
        match rx.recv_timeout(Duration::from_secs(12)) {
            Ok(p) => products.push(p),
            Err(_) => {
                hang = true;
                break;
            }
        }
    }
    verif_sync::set_observer(None);
    let (events, stuck) = {
        let st = obs.st.lock().unwrap();
        (st.events.clone(), st.stuck)
    };
    // verification on the main thread, sequentially, observer removed
    let usk = UserSecretKey::deserialize(&b.usk_bytes).expect("usk");
    let mut ok = !hang;
    let mut fps: Vec<String> = Vec::new();
    let mut notes = Vec::new();
    for (t, ps) in &products {
        for p in ps {
            match p {
                Product::Enc(e, s) => {
                    ok &= b.cc.decaps(&usk, e).ok().flatten().map(|x| x.to_vec()) == Some(s.clone());
                    collect_fps(&e.verif_view(), &mut fps);
                    fps.push(hex(&s[..8]));
                }
                Product::Pke(e, c, ptx) => {
                    let d = PkeAc::<{ Aes256Gcm::KEY_LENGTH }, Aes256Gcm>::decrypt(&*b.cc, &usk, &(e.clone(), c.clone()));
                    ok &= d.ok().flatten().map(|x| x.to_vec()) == Some(ptx.clone());
                    collect_fps(&e.verif_view(), &mut fps);
                    fps.push(hex(&c[..12.min(c.len())]));
                }
                Product::Header(h, s, md) => {
                    let ad = md.as_ref().map(|_| &b"aad"[..]);
                    match h.decrypt(&b.cc, &usk, ad) {
                        Ok(Some(c)) => ok &= c.secret.to_vec() == *s && c.metadata == *md,
                        _ => ok = false,
                    }
                    collect_fps(&h.encapsulation.verif_view(), &mut fps);
                    fps.push(hex(&s[..8]));
                    if let Some(em) = &h.encrypted_metadata {
                        if em.len() >= 12 {
                            // same form as the PKE nonce: a nonce reused ACROSS the two layers must collide too
                            fps.push(hex(&em[..12]));
                        }
                    }
                }
                Product::Key(k) => {
                    // (a key generated after a rekey of its own master key does not open the older encapsulation)
                    ok &= b.cc.decaps(k, &b.enc.0).is_ok();
                    fps.push(k.verif_view()["id"].as_str().unwrap_or("").to_string());
                }
                Product::Refreshed | Product::HeaderAd(..) => {}
                Product::Decaps(same) => ok &= *same,
                Product::Failed(e) => {
                    ok = false;
                    notes.push(format!("thread {t}: {e}"));
                }
            }
        }
    }
    let distinct = fps.iter().collect::<HashSet<_>>().len();
    let end = json!({"k": "end", "ok": ok, "hang": hang, "stuck": stuck, "fresh_total": fps.len(),
                     "fresh_distinct": distinct, "notes": notes});
    (events, end)
}

pub fn run(args: &[String]) -> Result<(), String> {
    let out = arg_val(args, "--out").ok_or("--out")?;
    let from = arg_u64(args, "--from", 0) as usize;
    let mut w = std::fs::OpenOptions::new()
        .create(true)
        .append(from > 0)
        .write(true)
        .truncate(from == 0)
        .open(&out)
        .map_err(|e| e.to_string())?;
    let b = base()?;
    let mut emit = |events: Vec<Value>, run: Value, end: Value| -> Result<bool, String> {
        writeln!(w, "{run}").map_err(|e| e.to_string())?;
        for e in events {
            writeln!(w, "{e}").map_err(|e| e.to_string())?;
        }
        writeln!(w, "{end}").map_err(|e| e.to_string())?;
        w.flush().map_err(|e| e.to_string())?;
        Ok(end["hang"].as_bool().unwrap_or(false))
    };
    if let Some(path) = arg_val(args, "--measure") {
        // how many times each call takes the RNG lock when it runs alone (one thread, nothing forced)
        let mut m = serde_json::Map::new();
        for call in ["encaps", "decaps", "decaps_empty", "encrypt", "encrypt_big", "header_md", "header", "keygen", "refresh", "rekey"] {
            let (events, end) = execute(&b, &[vec![call.to_string()]], vec![], false);
            if end["hang"].as_bool().unwrap_or(false) {
                return Err(format!("measure: call {call} did not return when run alone"));
            }
            let n = events.iter().filter(|e| e["ev"] == "acq").count();
            m.insert(call.to_string(), json!(n));
        }
        std::fs::write(&path, Value::Object(m).to_string()).map_err(|e| e.to_string())?;
        return Ok(());
    }
    if let Some(path) = arg_val(args, "--schedules") {
        let text = std::fs::read_to_string(&path).map_err(|e| e.to_string())?;
        for (i, line) in text.lines().enumerate().skip(from) {
            let c: Value = serde_json::from_str(line).map_err(|e| e.to_string())?;
            let programs: Vec<Vec<String>> = c["programs"].as_array().unwrap().iter()
                .map(|p| p.as_array().unwrap().iter().map(|x| x.as_str().unwrap().to_string()).collect()).collect();
            let schedule: Vec<u64> = c["schedule"].as_array().unwrap().iter().filter_map(Value::as_u64).collect();
            let (events, end) = execute(&b, &programs, schedule.clone(), true);
            let run = json!({"k": "run", "programs": c["programs"], "schedule": schedule, "forced": true, "index": i});
            if emit(events, run, end)? {
                // threads that never return cannot be joined: leave, the driver resumes after this schedule
                std::process::exit(3);
            }
        }
    }
    let stress = arg_u64(args, "--stress", 0);
    if stress > 0 {
        let threads = arg_u64(args, "--threads", 4) as usize;
        let mut rng = Rng::new(arg_u64(args, "--seed", 1));
        let calls = ["encaps", "encrypt", "header_md", "header", "keygen", "refresh", "decaps", "rekey"];
        for i in 0..stress {
            let programs: Vec<Vec<String>> = (0..threads)
                .map(|_| (0..6).map(|_| calls[rng.below(calls.len())].to_string()).collect())
                .collect();
            let (events, end) = execute(&b, &programs, vec![], false);
            let run = json!({"k": "run", "programs": programs, "schedule": [], "forced": false, "index": i});
            if emit(events, run, end)? {
                std::process::exit(3);
            }
        }
    }
    Ok(())
}

/// C16: long runs of identical calls from several threads and two instances.
pub fn fresh(args: &[String]) -> Result<(), String> {
    let out = arg_val(args, "--out").ok_or("--out")?;
    let n = arg_u64(args, "--n", 2000) as usize;
    let mut w = std::io::BufWriter::new(std::fs::File::create(&out).map_err(|e| e.to_string())?);
    let b1 = base()?;
    let b2 = Base { cc: Arc::new(Covercrypt::default()), mpk: b1.mpk.clone(), msk_bytes: b1.msk_bytes.clone(),
                    usk_bytes: b1.usk_bytes.clone(), enc: b1.enc.clone() };
    for threads in [1usize, 4, 8] {
        for (call, per) in [("encaps", n), ("encrypt", n), ("header_md", n), ("keygen", n / 4), ("rekey", n / 20)] {
            let (tx, rx) = mpsc::channel::<Vec<(String, String)>>();
            for t in 0..threads {
                let b = if t % 2 == 0 { &b1 } else { &b2 };
                let (cc, mpk, enc, tx) = (b.cc.clone(), b.mpk.clone(), b.enc.clone(), tx.clone());
                let (mb, ub) = (b.msk_bytes.clone(), b.usk_bytes.clone());
                let count = per / threads;
                std::thread::spawn(move || {
                    let mut msk = MasterSecretKey::deserialize(&mb).expect("msk");
                    let mut usk = UserSecretKey::deserialize(&ub).expect("usk");
                    let mut vals: Vec<(String, String)> = Vec::new();
                    let mut published: HashSet<String> = msk
                        .mpk()
                        .map(|m| m.verif_view()["keys"].as_array().cloned().unwrap_or_default())
                        .unwrap_or_default()
                        .iter()
                        .map(|k| k["p"].as_str().unwrap_or("").to_string())
                        .collect();
                    for _ in 0..count {
                        match run_call(call, &cc, &mpk, &mut msk, &mut usk, &enc) {
                            Product::Enc(e, s) => {
                                let v = e.verif_view();
                                vals.push(("secret".into(), hex(&s)));
                                vals.push(("tag".into(), v["tag"].as_str().unwrap_or("").into()));
                                for c in v["c"].as_array().cloned().unwrap_or_default() {
                                    vals.push(("trap".into(), c.as_str().unwrap_or("").into()));
                                }
                            }
                            Product::Pke(e, c, _) => {
                                vals.push(("pke_nonce".into(), hex(&c[..12.min(c.len())])));
                                vals.push(("tag".into(), e.verif_view()["tag"].as_str().unwrap_or("").into()));
                            }
                            Product::Header(h, s, _) => {
                                if let Some(em) = &h.encrypted_metadata {
                                    vals.push(("metadata_nonce".into(), hex(&em[..12.min(em.len())])));
                                    // the metadata key differs from the secret handed to the caller
                                    use cosmian_crypto_core::{Dem, FixedSizeCBytes, Instantiable, Nonce, SymmetricKey};
                                    let mut k = [0u8; 32];
                                    k.copy_from_slice(&s[..32]);
                                    if let Ok(key) = SymmetricKey::<32>::try_from_bytes(k) {
                                        if em.len() > 12 {
                                            if let Ok(nonce) = Nonce::try_from_slice(&em[..12]) {
                                                let opened = Aes256Gcm::new(&key).decrypt(&nonce, &em[12..], Some(b"aad")).is_ok();
                                                vals.push(("metadata_opened_with_returned_secret".into(), opened.to_string()));
                                            }
                                        }
                                    }
                                }
                                vals.push(("secret".into(), hex(&s)));
                            }
                            Product::Key(k) => vals.push(("user_id".into(), k.verif_view()["id"].as_str().unwrap_or("").into())),
                            Product::Refreshed => {
                                // rekey: the values published for the first time by this call
                                if let Ok(mpk) = msk.mpk() {
                                    for k in mpk.verif_view()["keys"].as_array().cloned().unwrap_or_default() {
                                        let p = k["p"].as_str().unwrap_or("").to_string();
                                        if published.insert(p.clone()) {
                                            vals.push(("published_new".into(), p));
                                        }
                                    }
                                }
                            }
                            Product::Decaps(_) | Product::HeaderAd(..) => {}
                            Product::Failed(e) => vals.push(("failed".into(), e)),
                        }
                    }
                    let _ = tx.send(vals);
                });
            }
            drop(tx);
            let mut by_cat: HashMap<String, Vec<String>> = HashMap::new();
            for vals in rx {
                for (c, v) in vals {
                    by_cat.entry(c).or_default().push(v);
                }
            }
            for (cat, vals) in by_cat {
                // re-published unchanged keys of a rekey appear repeatedly: only distinct (right, value) pairs count there
                let total = vals.len();
                // the "opened" category records booleans, not values that must differ
                let distinct = if cat == "metadata_opened_with_returned_secret" { total } else { vals.iter().collect::<HashSet<_>>().len() };
                let opened = vals.iter().filter(|v| *v == "true").count();
                // a rekey of D::a rotates the rights {} and {a}: two values never published before per call
                let expected = if cat == "published_new" { 2 * (per / threads) * threads } else { total };
                let rec = json!({"k": "fresh", "call": call, "category": cat, "threads": threads, "instances": threads.min(2),
                                 "total": total, "distinct": distinct, "expected": expected,
                                 "opened": if cat == "metadata_opened_with_returned_secret" { opened } else { 0 }});
                writeln!(w, "{rec}").map_err(|e| e.to_string())?;
            }
        }
    }
    // C16 across instances: fresh instances running the SAME history must share nothing
    {
        let mut all: Vec<String> = Vec::new();
        for _ in 0..4 {
            let cc = Covercrypt::default();
            let r = catch_unwind(AssertUnwindSafe(|| -> Result<Vec<String>, String> {
                let (mut msk, _) = cc.setup().map_err(|e| e.to_string())?;
                msk.access_structure.add_anarchy("D".into()).map_err(|e| e.to_string())?;
                msk.access_structure
                    .add_attribute(QualifiedAttribute::new("D", "a"), EncryptionHint::Hybridized, None)
                    .map_err(|e| e.to_string())?;
                let mpk = cc.update_msk(&mut msk).map_err(|e| e.to_string())?;
                let ap = AccessPolicy::parse("D::a").unwrap();
                let usk = cc.generate_user_secret_key(&mut msk, &ap).map_err(|e| e.to_string())?;
                let (s, e) = cc.encaps(&mpk, &ap).map_err(|e| e.to_string())?;
                let (_, h) = EncryptedHeader::generate(&cc, &mpk, &ap, Some(b"m"), None).map_err(|e| e.to_string())?;
                let mut fps = Vec::new();
                collect_fps(&msk.verif_view(), &mut fps);
                collect_fps(&usk.verif_view()["id"], &mut fps);
                collect_fps(&e.verif_view(), &mut fps);
                fps.push(hex(&s[..8]));
                if let Some(em) = &h.encrypted_metadata {
                    fps.push(hex(&em[..12.min(em.len())]));
                }
                fps.sort();
                fps.dedup(); // within one instance the same value legitimately appears in several views
                Ok(fps)
            }));
            match r {
                Ok(Ok(f)) => all.extend(f),
                _ => all.push("failed".into()),
            }
        }
        let distinct = all.iter().collect::<HashSet<_>>().len();
        let rec = json!({"k": "fresh", "call": "aligned_instances", "category": "same_history_on_fresh_instances", "threads": 1,
                         "instances": 4, "total": all.len(), "distinct": distinct, "expected": all.len(), "opened": 0});
        writeln!(w, "{rec}").map_err(|e| e.to_string())?;
    }
    // C16: the metadata key differs from the returned secret for EVERY authentication data value
    {
        let mut msk = MasterSecretKey::deserialize(&b1.msk_bytes).expect("msk");
        let mut usk = UserSecretKey::deserialize(&b1.usk_bytes).expect("usk");
        let mut opened = 0u64;
        let mut total = 0u64;
        for v in -1i64..=256 {
            if let Product::HeaderAd(h, s, ad) = run_call(&format!("header_ad:{v}"), &b1.cc, &b1.mpk, &mut msk, &mut usk, &b1.enc) {
                use cosmian_crypto_core::{Dem, FixedSizeCBytes, Instantiable, Nonce, SymmetricKey};
                total += 1;
                if let Some(em) = &h.encrypted_metadata {
                    let mut k = [0u8; 32];
                    k.copy_from_slice(&s[..32]);
                    if let (Ok(key), true) = (SymmetricKey::<32>::try_from_bytes(k), em.len() > 12) {
                        if let Ok(nonce) = Nonce::try_from_slice(&em[..12]) {
                            if Aes256Gcm::new(&key).decrypt(&nonce, &em[12..], ad.as_deref()).is_ok() {
                                opened += 1;
                            }
                        }
                    }
                }
            }
        }
        let rec = json!({"k": "fresh", "call": "header_ad", "category": "metadata_opened_with_returned_secret_any_aad", "threads": 1,
                         "instances": 1, "total": total, "distinct": total, "expected": total, "opened": opened});
        writeln!(w, "{rec}").map_err(|e| e.to_string())?;
    }
    w.flush().map_err(|e| e.to_string())?;
    Ok(())
}
