//! placeholder, filled in by the wire satellite
pub fn run(_args: &[String]) -> Result<(), String> {
    Err("wire satellite not built yet".into())
}
