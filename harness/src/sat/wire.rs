//! C14: deserializing or using untrusted bytes never crashes, hangs or
//! over-allocates.
//!
//! The abstract cases and the wire grammar come from spec/Wire.tla (mode gen).
//! This driver
//!  * builds valid objects of the six serialized types (small and large),
//!  * cuts them into fields with a LEB128-aware walker that INTERPRETS the
//!    grammar of the module (so a wrong grammar is detected: exit code 2),
//!  * expands every abstract case into concrete mutants (every truncation,
//!    every byte flip, every occurrence of a count/length field x boundary
//!    value, raw and consistent, random strings),
//!  * executes them in isolated worker processes (address-space limit, panics
//!    caught, watchdog on progress) and uses every parsed mutant,
//!  * writes one aggregated record per (abstract case, outcome class).

use std::alloc::{GlobalAlloc, Layout, System};
use std::collections::{BTreeMap, HashMap, HashSet};
use std::io::{BufRead, BufReader, BufWriter, Write};
use std::panic::{catch_unwind, AssertUnwindSafe};
use std::process::{Child, ChildStdin, Command, Stdio};
use std::sync::atomic::{AtomicUsize, Ordering};
use std::sync::mpsc::{channel, Receiver, RecvTimeoutError};
use std::sync::{Arc, Mutex};
use std::time::{Duration, Instant};

use cosmian_cover_crypt::{
    api::Covercrypt, traits::KemAc, AccessPolicy, AccessStructure, EncryptedHeader,
    EncryptionHint, MasterPublicKey, MasterSecretKey, QualifiedAttribute, UserSecretKey, XEnc,
};
use cosmian_crypto_core::bytes_ser_de::Serializable;
use serde_json::{json, Value};

use crate::util::{arg_flag, arg_u64, arg_val, hex, unhex, Rng};

// ------------------------------------------------------------ allocator

/// Counting wrapper around the system allocator: live bytes and their peak.
/// Installed by main.rs as the global allocator.
pub struct CountingAlloc;

static LIVE: AtomicUsize = AtomicUsize::new(0);
static PEAK: AtomicUsize = AtomicUsize::new(0);

#[inline]
fn grow(n: usize) {
    let now = LIVE.fetch_add(n, Ordering::Relaxed).wrapping_add(n);
    PEAK.fetch_max(now, Ordering::Relaxed);
}

unsafe impl GlobalAlloc for CountingAlloc {
    unsafe fn alloc(&self, l: Layout) -> *mut u8 {
        let p = System.alloc(l);
        if !p.is_null() {
            grow(l.size());
        }
        p
    }
    unsafe fn alloc_zeroed(&self, l: Layout) -> *mut u8 {
        let p = System.alloc_zeroed(l);
        if !p.is_null() {
            grow(l.size());
        }
        p
    }
    unsafe fn dealloc(&self, p: *mut u8, l: Layout) {
        System.dealloc(p, l);
        LIVE.fetch_sub(l.size(), Ordering::Relaxed);
    }
    unsafe fn realloc(&self, p: *mut u8, l: Layout, new: usize) -> *mut u8 {
        let q = System.realloc(p, l, new);
        if !q.is_null() {
            if new >= l.size() {
                grow(new - l.size());
            } else {
                LIVE.fetch_sub(l.size() - new, Ordering::Relaxed);
            }
        }
        q
    }
}

/// Starts a measurement: returns the baseline.
fn alloc_mark() -> usize {
    let live = LIVE.load(Ordering::Relaxed);
    PEAK.store(live, Ordering::Relaxed);
    live
}

/// Peak of the live bytes above the baseline since `alloc_mark`.
fn alloc_peak(base: usize) -> usize {
    PEAK.load(Ordering::Relaxed).saturating_sub(base)
}

fn allocator_installed() -> bool {
    let base = alloc_mark();
    let v: Vec<u8> = Vec::with_capacity(1 << 20);
    std::hint::black_box(&v);
    let p = alloc_peak(base);
    drop(v);
    p >= 1 << 20
}

// ------------------------------------------------------------ LEB128

fn leb(mut v: u64) -> Vec<u8> {
    let mut out = Vec::new();
    loop {
        let b = (v & 0x7f) as u8;
        v >>= 7;
        if v == 0 {
            out.push(b);
            return out;
        }
        out.push(b | 0x80);
    }
}

fn read_leb(b: &[u8], pos: usize) -> Result<(u64, usize), String> {
    let mut v: u64 = 0;
    let mut shift = 0u32;
    let mut i = pos;
    loop {
        let byte = *b.get(i).ok_or_else(|| format!("LEB128 runs past the end at {pos}"))?;
        i += 1;
        if shift >= 64 || (shift == 63 && byte & 0x7e != 0) {
            return Err(format!("LEB128 overflow at {pos}"));
        }
        v |= u64::from(byte & 0x7f) << shift;
        if byte & 0x80 == 0 {
            return Ok((v, i - pos));
        }
        shift += 7;
    }
}

// ------------------------------------------------------------ layout cutter

/// A count or length field found in a concrete byte string.
#[derive(Clone, Debug)]
struct Field {
    path: String,
    /// offset and width of the LEB128 integer
    off: usize,
    width: usize,
    value: u64,
    /// rep: extents of the elements; vec: one extent, the data
    elems: Vec<(usize, usize)>,
    is_vec: bool,
}

fn join(p: &str, name: &str) -> String {
    if name.is_empty() {
        p.to_string()
    } else if p.is_empty() {
        name.to_string()
    } else {
        format!("{p}/{name}")
    }
}

/// Walks `b` from `pos` following the grammar node `g` (the JSON form of the
/// field trees of Wire.tla); returns the new position.
fn walk(g: &Value, prefix: &str, b: &[u8], pos: usize, out: &mut Vec<Field>) -> Result<usize, String> {
    let name = g["name"].as_str().unwrap_or("");
    let p = join(prefix, name);
    let need = |pos: usize, n: usize| -> Result<usize, String> {
        if pos + n <= b.len() {
            Ok(pos + n)
        } else {
            Err(format!("{p}: {n} bytes needed at {pos}, {} left", b.len() - pos))
        }
    };
    match g["k"].as_str().unwrap_or("") {
        "bytes" => need(pos, g["n"].as_u64().ok_or("bytes without n")? as usize),
        "int" => read_leb(b, pos).map(|(_, w)| pos + w),
        "flag" => {
            let (v, w) = read_leb(b, pos)?;
            if v > g["max"].as_u64().unwrap_or(0) {
                return Err(format!("{p}: flag {v} out of range at {pos}"));
            }
            Ok(pos + w)
        }
        "vec" => {
            let (v, w) = read_leb(b, pos)?;
            let end = need(pos + w, usize::try_from(v).map_err(|e| e.to_string())?)?;
            out.push(Field { path: format!("{p}#len"), off: pos, width: w, value: v, elems: vec![(pos + w, end)], is_vec: true });
            Ok(end)
        }
        "rep" => {
            let (v, w) = read_leb(b, pos)?;
            let idx = out.len();
            out.push(Field { path: format!("{p}#n"), off: pos, width: w, value: v, elems: vec![], is_vec: false });
            let mut at = pos + w;
            let sub = format!("{p}[]");
            for _ in 0..v {
                let end = walk(&g["elem"], &sub, b, at, out)?;
                out[idx].elems.push((at, end));
                at = end;
            }
            Ok(at)
        }
        "seq" => {
            let mut at = pos;
            for it in g["items"].as_array().ok_or("seq without items")? {
                at = walk(it, &p, b, at, out)?;
            }
            Ok(at)
        }
        "alt" => {
            let (v, w) = read_leb(b, pos)?;
            let alts = g["alts"].as_array().ok_or("alt without alts")?;
            let a = alts.get(v as usize).ok_or_else(|| format!("{p}: selector {v} at {pos}"))?;
            walk(a, &p, b, pos + w, out)
        }
        "opt" => {
            let n = g["n"].as_u64().ok_or("opt without n")? as usize;
            Ok(if b.len() - pos >= n { pos + n } else { pos })
        }
        other => Err(format!("unknown grammar node kind {other:?}")),
    }
}

/// Every count/length path of a grammar (the harness' own enumeration, compared
/// with the fields of the cases generated by TLC).
fn grammar_paths(g: &Value, prefix: &str, out: &mut Vec<String>) {
    let p = join(prefix, g["name"].as_str().unwrap_or(""));
    match g["k"].as_str().unwrap_or("") {
        "vec" => out.push(format!("{p}#len")),
        "rep" => {
            out.push(format!("{p}#n"));
            grammar_paths(&g["elem"], &format!("{p}[]"), out);
        }
        "seq" => g["items"].as_array().into_iter().flatten().for_each(|x| grammar_paths(x, &p, out)),
        "alt" => g["alts"].as_array().into_iter().flatten().for_each(|x| grammar_paths(x, &p, out)),
        _ => {}
    }
}

/// Raw rewrite: only the integer changes.
fn rewrite_raw(b: &[u8], f: &Field, v: u64) -> Vec<u8> {
    let mut out = Vec::with_capacity(b.len() + 10);
    out.extend_from_slice(&b[..f.off]);
    out.extend_from_slice(&leb(v));
    out.extend_from_slice(&b[f.off + f.width..]);
    out
}

/// Consistent rewrite: the integer changes and the elements follow (dropped
/// from the end, or the last one duplicated). None when impossible.
fn rewrite_resized(b: &[u8], f: &Field, v: u64) -> Option<Vec<u8>> {
    let n = f.value;
    if v > n + 1 {
        return None;
    }
    let start = f.off + f.width;
    let end = f.elems.last().map_or(start, |e| e.1);
    let mut out = Vec::with_capacity(b.len() + 64);
    out.extend_from_slice(&b[..f.off]);
    out.extend_from_slice(&leb(v));
    if f.is_vec {
        let keep = v.min(n) as usize;
        out.extend_from_slice(&b[start..start + keep]);
        if v == n + 1 {
            out.push(0x41);
        }
    } else if v <= n {
        let upto = if v == 0 { start } else { f.elems[v as usize - 1].1 };
        out.extend_from_slice(&b[start..upto]);
    } else {
        let last = *f.elems.last()?;
        out.extend_from_slice(&b[start..end]);
        out.extend_from_slice(&b[last.0..last.1]);
    }
    out.extend_from_slice(&b[end..]);
    Some(out)
}

fn boundary(v: &str, n: u64) -> Option<u64> {
    match v {
        "0" => Some(0),
        "1" => Some(1),
        "n-1" => n.checked_sub(1),
        "n+1" => n.checked_add(1),
        "2^32" => Some(1 << 32),
        "2^63" => Some(1 << 63),
        "2^64-1" => Some(u64::MAX),
        _ => None,
    }
}

// ------------------------------------------------------------ valid objects

const TYPES: [&str; 6] = ["xenc", "header", "usk", "mpk", "msk", "structure"];
const OBJECTS: [&str; 2] = ["small", "large"];

fn ap(s: &str) -> AccessPolicy {
    AccessPolicy::parse(s).expect("policy")
}

fn ser<T: Serializable>(x: &T) -> Vec<u8>
where
    T::Error: std::fmt::Debug,
{
    x.serialize().expect("serialize").to_vec()
}

/// One valid object with what is needed to use its mutants.
#[derive(Clone, Default)]
struct Object {
    bytes: Vec<u8>,
    /// a user key opening the encapsulation / header (xenc, header)
    usk: Vec<u8>,
    /// an encapsulation the user key opens (usk)
    enc: Vec<u8>,
    /// a policy to encapsulate for (mpk)
    policy: String,
}

fn build_objects() -> Result<HashMap<String, Object>, String> {
    let e = |x: cosmian_cover_crypt::Error| x.to_string();
    let mut m = HashMap::new();
    let mut put = |t: &str, o: &str, obj: Object| {
        m.insert(format!("{t}/{o}"), obj);
    };
    // small: one dimension, two attributes, one user key with one right, classic
    {
        let cc = Covercrypt::default();
        let (mut msk, _) = cc.setup().map_err(e)?;
        msk.access_structure.add_anarchy("D".into()).map_err(e)?;
        for a in ["A", "B"] {
            msk.access_structure
                .add_attribute(QualifiedAttribute::new("D", a), EncryptionHint::Classic, None)
                .map_err(e)?;
        }
        let mpk = cc.update_msk(&mut msk).map_err(e)?;
        let usk = cc.generate_user_secret_key(&mut msk, &ap("D::A")).map_err(e)?;
        let (_, enc) = cc.encaps(&mpk, &ap("D::A")).map_err(e)?;
        let (_, hdr) = EncryptedHeader::generate(&cc, &mpk, &ap("D::A"), None, None).map_err(e)?;
        if cc.decaps(&usk, &enc).map_err(e)?.is_none() {
            return Err("small: the user key does not open the encapsulation".into());
        }
        let (u, x) = (ser(&usk), ser(&enc));
        put("xenc", "small", Object { bytes: x.clone(), usk: u.clone(), ..Default::default() });
        put("header", "small", Object { bytes: ser(&hdr), usk: u.clone(), ..Default::default() });
        put("usk", "small", Object { bytes: u, enc: x, ..Default::default() });
        put("mpk", "small", Object { bytes: ser(&mpk), policy: "D::A".into(), ..Default::default() });
        put("msk", "small", Object { bytes: ser(&msk), ..Default::default() });
        put("structure", "small", Object { bytes: ser(&msk.access_structure), ..Default::default() });
    }
    // large: the golden structure, two revisions of every right, hybridized
    // rights, several users, a disabled attribute, a header with metadata
    {
        let cc = Covercrypt::default();
        let (mut msk, _) = cc.setup().map_err(e)?;
        let st = &mut msk.access_structure;
        st.add_hierarchy("SEC".into()).map_err(e)?;
        st.add_attribute(QualifiedAttribute::new("SEC", "LOW"), EncryptionHint::Classic, None).map_err(e)?;
        st.add_attribute(QualifiedAttribute::new("SEC", "TOP"), EncryptionHint::Hybridized, Some("LOW")).map_err(e)?;
        st.add_anarchy("DPT".into()).map_err(e)?;
        for (n, h) in [("RD", false), ("HR", false), ("MKG", true), ("FIN", false)] {
            st.add_attribute(QualifiedAttribute::new("DPT", n), EncryptionHint::new(h), None).map_err(e)?;
        }
        cc.update_msk(&mut msk).map_err(e)?;
        let pols = ["SEC::TOP && (DPT::FIN || DPT::HR)", "DPT::MKG", "*", "SEC::LOW && DPT::RD"];
        let mut usks = Vec::new();
        for p in pols {
            usks.push(cc.generate_user_secret_key(&mut msk, &ap(p)).map_err(e)?);
        }
        cc.rekey(&mut msk, &ap("*")).map_err(e)?;
        for u in usks.iter_mut().take(3) {
            cc.refresh_usk(&mut msk, u, true).map_err(e)?;
        }
        msk.access_structure
            .disable_attribute(&QualifiedAttribute::new("DPT", "HR"))
            .map_err(e)?;
        let mpk = cc.update_msk(&mut msk).map_err(e)?;
        let pol = "SEC::TOP && (DPT::FIN || DPT::MKG)";
        let (_, enc) = cc.encaps(&mpk, &ap(pol)).map_err(e)?;
        let (_, hdr) =
            EncryptedHeader::generate(&cc, &mpk, &ap(pol), Some(b"wire metadata"), None).map_err(e)?;
        if cc.decaps(&usks[0], &enc).map_err(e)?.is_none() {
            return Err("large: the user key does not open the encapsulation".into());
        }
        let (u, x) = (ser(&usks[0]), ser(&enc));
        put("xenc", "large", Object { bytes: x.clone(), usk: u.clone(), ..Default::default() });
        put("header", "large", Object { bytes: ser(&hdr), usk: u.clone(), ..Default::default() });
        put("usk", "large", Object { bytes: u, enc: x, ..Default::default() });
        put("mpk", "large", Object { bytes: ser(&mpk), policy: pol.into(), ..Default::default() });
        put("msk", "large", Object { bytes: ser(&msk), ..Default::default() });
        put("structure", "large", Object { bytes: ser(&msk.access_structure), ..Default::default() });
    }
    Ok(m)
}

// ------------------------------------------------------------ the plan

/// Everything parent and workers derive identically from the context file.
struct Plan {
    cases: Vec<Value>,
    objects: HashMap<String, Object>,
    layouts: HashMap<String, Vec<Field>>,
    /// number of concrete mutants of each case, and prefix sums
    sizes: Vec<usize>,
    starts: Vec<usize>,
    total: usize,
    seed: u64,
    thorough: bool,
}

struct Mutant {
    bytes: Vec<u8>,
    /// byte offset the mutation applies at, and a printable value
    off: usize,
    val: String,
    /// false when the mutant equals the valid object
    changed: bool,
}

const FLIP_QUICK: [u8; 3] = [0x01, 0x80, 0xff];

impl Plan {
    fn key(c: &Value) -> String {
        format!("{}/{}", c["type"].as_str().unwrap_or(""), c["object"].as_str().unwrap_or(""))
    }

    fn n_random(&self) -> usize {
        if self.thorough {
            20000
        } else {
            2000
        }
    }

    fn occurrences<'a>(&'a self, c: &Value) -> Vec<&'a Field> {
        let path = c["field"].as_str().unwrap_or("");
        self.layouts[&Self::key(c)].iter().filter(|f| f.path == path).collect()
    }

    fn size_of(&self, c: &Value) -> usize {
        let len = self.objects[&Self::key(c)].bytes.len();
        match c["mutation"].as_str().unwrap_or("") {
            "truncate" => len + 1,
            "flip" => len * if self.thorough { 255 } else { FLIP_QUICK.len() },
            "random" => self.n_random(),
            "count" | "resize" => self.occurrences(c).len(),
            _ => 0,
        }
    }

    fn new(ctx: &Value) -> Result<Plan, String> {
        let cases_path = ctx["cases"].as_str().ok_or("context without cases")?;
        let text = std::fs::read_to_string(cases_path).map_err(|e| format!("{cases_path}: {e}"))?;
        let mut grammars: HashMap<String, Value> = HashMap::new();
        let mut cases = Vec::new();
        for line in text.lines() {
            let v: Value = serde_json::from_str(line).map_err(|e| e.to_string())?;
            if let Some(g) = v.get("grammar") {
                grammars.insert(g["type"].as_str().unwrap_or("").to_string(), g.clone());
            } else if v.get("mutation").is_some() {
                cases.push(v);
            }
        }
        let mut objects = HashMap::new();
        for (k, o) in ctx["objects"].as_object().ok_or("context without objects")? {
            let h = |f: &str| unhex(o[f].as_str().unwrap_or(""));
            objects.insert(
                k.clone(),
                Object { bytes: h("bytes"), usk: h("usk"), enc: h("enc"), policy: o["policy"].as_str().unwrap_or("").into() },
            );
        }
        let mut layouts = HashMap::new();
        for t in TYPES {
            let g = grammars.get(t).ok_or_else(|| format!("no grammar for {t}"))?;
            for o in OBJECTS {
                let k = format!("{t}/{o}");
                let b = &objects.get(&k).ok_or_else(|| format!("no object {k}"))?.bytes;
                let mut fields = Vec::new();
                let end = walk(&g["grammar"], "", b, 0, &mut fields).map_err(|e| format!("layout of {k}: {e}"))?;
                if end != b.len() {
                    return Err(format!("layout of {k}: walked {end} of {} bytes", b.len()));
                }
                layouts.insert(k, fields);
            }
        }
        let mut plan = Plan {
            cases,
            objects,
            layouts,
            sizes: vec![],
            starts: vec![],
            total: 0,
            seed: ctx["seed"].as_u64().unwrap_or(1),
            thorough: ctx["thorough"].as_bool().unwrap_or(false),
        };
        for i in 0..plan.cases.len() {
            let n = plan.size_of(&plan.cases[i]);
            plan.starts.push(plan.total);
            plan.sizes.push(n);
            plan.total += n;
        }
        Ok(plan)
    }

    /// Checks of the cutter against the grammar and the cases; any
    /// disagreement means that the grammar of Wire.tla is not the format.
    fn verify(&self, grammars: &HashMap<String, Value>) -> Result<(), String> {
        for t in TYPES {
            let mut gp = Vec::new();
            grammar_paths(&grammars[t]["grammar"], "", &mut gp);
            let gp: HashSet<String> = gp.into_iter().collect();
            let cp: HashSet<String> = self
                .cases
                .iter()
                .filter(|c| c["type"] == t && c.get("field").is_some())
                .map(|c| c["field"].as_str().unwrap_or("").to_string())
                .collect();
            if gp != cp {
                return Err(format!("{t}: fields of the cases {cp:?} differ from the fields of the grammar {gp:?}"));
            }
            for o in OBJECTS {
                let k = format!("{t}/{o}");
                let b = &self.objects[&k].bytes;
                for f in &self.layouts[&k] {
                    if !gp.contains(&f.path) {
                        return Err(format!("{k}: field {} is not in the grammar", f.path));
                    }
                    if rewrite_raw(b, f, f.value) != *b {
                        return Err(format!("{k}: re-encoding {} at {} changes the bytes", f.path, f.off));
                    }
                    if rewrite_resized(b, f, f.value).as_deref() != Some(&b[..]) {
                        return Err(format!("{k}: resizing {} at {} to its own value changes the bytes", f.path, f.off));
                    }
                }
            }
        }
        Ok(())
    }

    fn locate(&self, id: usize) -> (usize, usize) {
        let i = match self.starts.binary_search(&id) {
            Ok(mut i) => {
                // skip empty cases sharing the same start
                while self.sizes[i] == 0 {
                    i += 1;
                }
                i
            }
            Err(i) => i - 1,
        };
        (i, id - self.starts[i])
    }

    fn materialize(&self, ci: usize, j: usize) -> Mutant {
        let c = &self.cases[ci];
        let base = &self.objects[&Self::key(c)].bytes;
        match c["mutation"].as_str().unwrap_or("") {
            "truncate" => Mutant { bytes: base[..j].to_vec(), off: j, val: format!("len={j}"), changed: j != base.len() },
            "flip" => {
                let per = if self.thorough { 255 } else { FLIP_QUICK.len() };
                let (pos, m) = (j / per, j % per);
                let mask = if self.thorough { (m + 1) as u8 } else { FLIP_QUICK[m] };
                let mut b = base.clone();
                b[pos] ^= mask;
                Mutant { bytes: b, off: pos, val: format!("^{mask:02x}"), changed: true }
            }
            "random" => {
                let mut rng = Rng::new(self.seed ^ ((ci as u64) << 32) ^ (j as u64).wrapping_mul(0x9E37_79B9));
                let mut b = base.clone();
                let flavour = j % 4;
                let at = rng.below(base.len().max(1));
                let span = 1 + rng.below(16);
                match flavour {
                    0 => {
                        let n = rng.below(2 * base.len().min(256) + 1);
                        b = rng.bytes(n);
                    }
                    1 => {
                        for x in b.iter_mut().skip(at).take(span) {
                            *x = (rng.next() & 0xff) as u8;
                        }
                    }
                    2 => {
                        let end = (at + span).min(b.len());
                        b.drain(at..end);
                    }
                    _ => {
                        let ins = rng.bytes(span);
                        b.splice(at..at, ins);
                    }
                }
                let val = ["uniform", "overwrite", "delete", "insert"][flavour].to_string();
                Mutant { bytes: b, off: if flavour == 0 { 0 } else { at }, val, changed: true }
            }
            m @ ("count" | "resize") => {
                let f = self.occurrences(c)[j];
                let vs = c["value"].as_str().unwrap_or("");
                let same = || Mutant { bytes: base.clone(), off: f.off, val: format!("{vs} (not applicable, n={})", f.value), changed: false };
                match boundary(vs, f.value) {
                    None => same(),
                    Some(v) => {
                        let bytes = if m == "count" { Some(rewrite_raw(base, f, v)) } else { rewrite_resized(base, f, v) };
                        match bytes {
                            None => same(),
                            Some(bytes) => {
                                let changed = bytes != *base;
                                Mutant { bytes, off: f.off, val: format!("{vs}={v} (n={})", f.value), changed }
                            }
                        }
                    }
                }
            }
            _ => Mutant { bytes: base.clone(), off: 0, val: String::new(), changed: false },
        }
    }
}

fn read_grammars(cases_path: &str) -> Result<HashMap<String, Value>, String> {
    let text = std::fs::read_to_string(cases_path).map_err(|e| format!("{cases_path}: {e}"))?;
    let mut grammars = HashMap::new();
    for line in text.lines() {
        let v: Value = serde_json::from_str(line).map_err(|e| e.to_string())?;
        if let Some(g) = v.get("grammar") {
            grammars.insert(g["type"].as_str().unwrap_or("").to_string(), g.clone());
        }
    }
    Ok(grammars)
}

// ------------------------------------------------------------ worker

struct Outcome {
    parse: &'static str,
    used: &'static str,
    us: u128,
    peak: usize,
    use_peak: usize,
}

/// Deserializes `bytes` as a T, then uses the value. `mark` is called
/// between the two phases (progress line for the parent).
fn exec<T: Serializable>(bytes: &[u8], mark: &mut dyn FnMut(), used: impl FnOnce(&T) -> &'static str) -> Outcome {
    let t0 = Instant::now();
    let base = alloc_mark();
    let r = catch_unwind(AssertUnwindSafe(|| T::deserialize(bytes)));
    let peak = alloc_peak(base);
    match r {
        Err(_) => Outcome { parse: "panic", used: "na", us: t0.elapsed().as_micros(), peak, use_peak: 0 },
        Ok(Err(err)) => {
            drop(err);
            Outcome { parse: "error", used: "na", us: t0.elapsed().as_micros(), peak, use_peak: 0 }
        }
        Ok(Ok(v)) => {
            mark();
            let base = alloc_mark();
            let u = catch_unwind(AssertUnwindSafe(|| used(&v))).unwrap_or("panic");
            let use_peak = alloc_peak(base);
            // dropping a malformed value must not panic either
            let d = catch_unwind(AssertUnwindSafe(move || drop(v)));
            let u = if d.is_err() { "panic" } else { u };
            Outcome { parse: "value", used: u, us: t0.elapsed().as_micros(), peak, use_peak }
        }
    }
}

struct UseCtx {
    cc: Covercrypt,
    usk: HashMap<String, UserSecretKey>,
    enc: HashMap<String, XEnc>,
    policy: HashMap<String, AccessPolicy>,
}

fn opt3<T, E>(r: Result<Option<T>, E>) -> &'static str {
    match r {
        Ok(Some(_)) => "ok",
        Ok(None) => "none",
        Err(_) => "error",
    }
}

fn run_one(ctx: &UseCtx, key: &str, ty: &str, bytes: &[u8], mark: &mut dyn FnMut()) -> Outcome {
    let cc = &ctx.cc;
    match ty {
        "xenc" => exec::<XEnc>(bytes, mark, |x| {
            let r = opt3(cc.decaps(&ctx.usk[key], x));
            std::hint::black_box(x.tracing_level());
            std::hint::black_box(x.count());
            r
        }),
        "header" => exec::<EncryptedHeader>(bytes, mark, |h| {
            let r = opt3(h.decrypt(cc, &ctx.usk[key], None));
            std::hint::black_box(h.encapsulation.tracing_level());
            std::hint::black_box(h.encapsulation.count());
            r
        }),
        "usk" => exec::<UserSecretKey>(bytes, mark, |u| {
            let r = opt3(cc.decaps(u, &ctx.enc[key]));
            std::hint::black_box(u.tracing_level());
            r
        }),
        "mpk" => exec::<MasterPublicKey>(bytes, mark, |m| {
            let r = if cc.encaps(m, &ctx.policy[key]).is_ok() { "ok" } else { "error" };
            std::hint::black_box(m.tracing_level());
            r
        }),
        "msk" => exec::<MasterSecretKey>(bytes, mark, |m| match m.mpk() {
            Ok(p) => {
                std::hint::black_box(p.tracing_level());
                "ok"
            }
            Err(_) => "error",
        }),
        _ => exec::<AccessStructure>(bytes, mark, |_| "ok"),
    }
}

fn worker(ctx_path: &str) -> Result<(), String> {
    let ctx: Value = serde_json::from_str(&std::fs::read_to_string(ctx_path).map_err(|e| e.to_string())?)
        .map_err(|e| e.to_string())?;
    let plan = Plan::new(&ctx)?;
    let mut uc = UseCtx { cc: Covercrypt::default(), usk: HashMap::new(), enc: HashMap::new(), policy: HashMap::new() };
    for (k, o) in &plan.objects {
        if !o.usk.is_empty() {
            uc.usk.insert(k.clone(), UserSecretKey::deserialize(&o.usk).map_err(|e| e.to_string())?);
        }
        if !o.enc.is_empty() {
            uc.enc.insert(k.clone(), XEnc::deserialize(&o.enc).map_err(|e| e.to_string())?);
        }
        if !o.policy.is_empty() {
            uc.policy.insert(k.clone(), ap(&o.policy));
        }
    }
    let stdout = std::io::stdout();
    let mut out = stdout.lock();
    let say = |out: &mut std::io::StdoutLock, s: String| {
        let _ = out.write_all(s.as_bytes());
        let _ = out.flush();
    };
    say(&mut out, "READY\n".into());
    let stdin = std::io::stdin();
    let mut line = String::new();
    loop {
        line.clear();
        if stdin.lock().read_line(&mut line).map_err(|e| e.to_string())? == 0 {
            return Ok(());
        }
        let mut it = line.split_whitespace();
        let a: usize = it.next().and_then(|x| x.parse().ok()).unwrap_or(0);
        let b: usize = it.next().and_then(|x| x.parse().ok()).unwrap_or(0);
        let skip: HashSet<usize> = it.next().map(|s| s.split(',').filter_map(|x| x.parse().ok()).collect()).unwrap_or_default();
        for id in a..b.min(plan.total) {
            let (ci, j) = plan.locate(id);
            if skip.contains(&ci) {
                continue;
            }
            let c = &plan.cases[ci];
            let m = plan.materialize(ci, j);
            say(&mut out, format!("S {id}\n"));
            let mut mark = || {
                let so = std::io::stdout();
                let mut o = so.lock();
                let _ = o.write_all(format!("U {id}\n").as_bytes());
                let _ = o.flush();
            };
            // the lock on stdout is reentrant: `mark` may lock it again
            let mut o = run_one(&uc, &Plan::key(c), c["type"].as_str().unwrap_or(""), &m.bytes, &mut mark);
            // wall-clock time on a loaded machine is noisy: a slow mutant is run a second
            // time and the faster run counts (a genuinely slow input is slow twice)
            if o.us > SLOW_RETRY_US {
                let o2 = run_one(&uc, &Plan::key(c), c["type"].as_str().unwrap_or(""), &m.bytes, &mut mark);
                if o2.parse == o.parse && o2.used == o.used && o2.us < o.us {
                    o.us = o2.us;
                }
            }
            say(
                &mut out,
                format!("R {id} {} {} {} {} {} {} {}\n", m.bytes.len(), o.parse, o.used, o.us, o.peak, o.use_peak, u8::from(m.changed)),
            );
        }
        say(&mut out, "D\n".into());
    }
}

// ------------------------------------------------------------ parent

#[derive(Default, Clone)]
struct Agg {
    n: u64,
    n_changed: u64,
    max_us: u128,
    max_len: usize,
    worst_excess: i128,
    worst_peak: usize,
    worst_len: usize,
    max_use_peak: usize,
    used: BTreeMap<String, u64>,
    examples: Vec<Value>,
    note: String,
}

struct Proc {
    child: Child,
    stdin: ChildStdin,
    rx: Receiver<String>,
}

const VLIMIT_KB: u64 = 1_048_576;
const STALL: Duration = Duration::from_secs(5);

fn spawn_worker(ctx_path: &str) -> Result<Proc, String> {
    let exe = std::env::current_exe().map_err(|e| e.to_string())?;
    let mut child = Command::new("sh")
        .arg("-c")
        .arg(format!("ulimit -v {VLIMIT_KB}; exec \"$0\" wire --worker \"$1\""))
        .arg(exe)
        .arg(ctx_path)
        .stdin(Stdio::piped())
        .stdout(Stdio::piped())
        .stderr(Stdio::inherit())
        .spawn()
        .map_err(|e| format!("cannot spawn a worker: {e}"))?;
    let stdin = child.stdin.take().ok_or("worker stdin")?;
    let stdout = child.stdout.take().ok_or("worker stdout")?;
    let (tx, rx) = channel();
    std::thread::spawn(move || {
        for l in BufReader::new(stdout).lines() {
            match l {
                Ok(l) => {
                    if tx.send(l).is_err() {
                        break;
                    }
                }
                Err(_) => break,
            }
        }
    });
    match rx.recv_timeout(Duration::from_secs(60)) {
        Ok(l) if l == "READY" => Ok(Proc { child, stdin, rx }),
        other => {
            let _ = child.kill();
            let st = child.wait().map(|s| s.to_string()).unwrap_or_default();
            Err(format!("worker did not start ({other:?}, {st})"))
        }
    }
}

fn around(b: &[u8], off: usize) -> String {
    let a = off.saturating_sub(24).min(b.len());
    let e = (a + 64).min(b.len());
    hex(&b[a..e])
}

struct Shared {
    plan: Plan,
    next: AtomicUsize,
    /// cases whose remaining mutants are skipped after repeated hangs
    skip: Mutex<HashSet<usize>>,
    hangs: Mutex<HashMap<usize, usize>>,
    total_hangs: AtomicUsize,
    ctx_path: String,
}

const CHUNK: usize = 128;
const SLOW_RETRY_US: u128 = 200_000;
const HANGS_PER_CASE: usize = 2;
const HANGS_TOTAL: usize = 36;

fn record(sh: &Shared, aggs: &mut HashMap<(usize, String), Agg>, id: usize, class: &str, len: usize, us: u128, peak: usize,
          use_peak: usize, used: &str, changed: bool, note: &str) {
    let (ci, j) = sh.plan.locate(id);
    let c = &sh.plan.cases[ci];
    let k = c["K"].as_u64().unwrap_or(0) as i128;
    let cc = c["C"].as_u64().unwrap_or(0) as i128;
    let over = peak as i128 > k * len as i128 + cc;
    let class = if class == "value" || class == "error" {
        if over {
            "overalloc"
        } else {
            class
        }
    } else {
        class
    };
    let a = aggs.entry((ci, class.to_string())).or_default();
    a.n += 1;
    a.n_changed += u64::from(changed);
    a.max_us = a.max_us.max(us);
    a.max_len = a.max_len.max(len);
    a.max_use_peak = a.max_use_peak.max(use_peak);
    let excess = peak as i128 - k * len as i128;
    if a.n == 1 || excess > a.worst_excess {
        a.worst_excess = excess;
        a.worst_peak = peak;
        a.worst_len = len;
    }
    if used != "na" {
        *a.used.entry(used.to_string()).or_default() += 1;
    }
    if !note.is_empty() && a.note.is_empty() {
        a.note = note.to_string();
    }
    let bad = !(class == "value" || class == "error");
    if a.examples.len() < 3 {
        let m = sh.plan.materialize(ci, j);
        let mut ex = json!({"j": j, "off": m.off, "val": m.val, "len": m.bytes.len(), "hex": around(&m.bytes, m.off),
                            "peak": peak.min(i32::MAX as usize), "ms": (us / 1000) as u64});
        if bad && m.bytes.len() <= 8192 {
            ex["bytes"] = json!(hex(&m.bytes));
        }
        a.examples.push(ex);
    }
}

fn slot(sh: Arc<Shared>) -> Result<HashMap<(usize, String), Agg>, String> {
    let mut aggs: HashMap<(usize, String), Agg> = HashMap::new();
    let mut proc = spawn_worker(&sh.ctx_path)?;
    loop {
        let a = sh.next.fetch_add(CHUNK, Ordering::SeqCst);
        if a >= sh.plan.total {
            break;
        }
        let b = (a + CHUNK).min(sh.plan.total);
        let mut from = a;
        'chunk: while from < b {
            if sh.total_hangs.load(Ordering::SeqCst) >= HANGS_TOTAL {
                // the run is lost anyway: account the rest as skipped
                for id in from..b {
                    let (ci, _) = sh.plan.locate(id);
                    aggs.entry((ci, "skipped".into())).or_default().n += 1;
                }
                break 'chunk;
            }
            let skip: Vec<usize> = sh.skip.lock().unwrap().iter().copied().collect();
            let skipset: HashSet<usize> = skip.iter().copied().collect();
            let cmd = format!("{from} {b} {}\n", skip.iter().map(|x| x.to_string()).collect::<Vec<_>>().join(","));
            if proc.stdin.write_all(cmd.as_bytes()).and_then(|_| proc.stdin.flush()).is_err() {
                let _ = proc.child.kill();
                let _ = proc.child.wait();
                proc = spawn_worker(&sh.ctx_path)?;
                continue;
            }
            let count_skipped = |aggs: &mut HashMap<(usize, String), Agg>, lo: usize, hi: usize| {
                for id in lo..hi {
                    let (ci, _) = sh.plan.locate(id);
                    if skipset.contains(&ci) {
                        aggs.entry((ci, "skipped".into())).or_default().n += 1;
                    }
                }
            };
            let mut inflight: Option<(usize, bool)> = None;
            loop {
                match proc.rx.recv_timeout(STALL) {
                    Ok(l) => {
                        let mut it = l.split(' ');
                        match it.next() {
                            Some("S") => inflight = it.next().and_then(|x| x.parse().ok()).map(|id| (id, false)),
                            Some("U") => {
                                if let Some(x) = inflight.as_mut() {
                                    x.1 = true;
                                }
                            }
                            Some("R") => {
                                let f: Vec<&str> = it.collect();
                                if f.len() < 8 {
                                    return Err(format!("malformed worker line {l:?}"));
                                }
                                let id: usize = f[0].parse().map_err(|_| "worker id")?;
                                let len: usize = f[1].parse().unwrap_or(0);
                                let (parse, used) = (f[2], f[3]);
                                let us: u128 = f[4].parse().unwrap_or(0);
                                let peak: usize = f[5].parse().unwrap_or(0);
                                let use_peak: usize = f[6].parse().unwrap_or(0);
                                let changed = f[7] == "1";
                                let class = if parse == "panic" {
                                    "panic"
                                } else if used == "panic" {
                                    "use-panic"
                                } else {
                                    parse
                                };
                                record(&sh, &mut aggs, id, class, len, us, peak, use_peak, used, changed, "");
                                inflight = None;
                            }
                            Some("D") => {
                                count_skipped(&mut aggs, from, b);
                                from = b;
                                break;
                            }
                            _ => {}
                        }
                    }
                    Err(e) => {
                        let hang = matches!(e, RecvTimeoutError::Timeout);
                        if hang {
                            let _ = proc.child.kill();
                        }
                        let status = proc.child.wait().map(|s| s.to_string()).unwrap_or_default();
                        let Some((id, in_use)) = inflight else {
                            return Err(format!("worker lost between two mutants ({status})"));
                        };
                        let class = match (hang, in_use) {
                            (true, false) => "hang",
                            (true, true) => "use-hang",
                            (false, false) => "abort",
                            (false, true) => "use-abort",
                        };
                        let (ci, j) = sh.plan.locate(id);
                        let m = sh.plan.materialize(ci, j);
                        let note = if hang { format!("no progress for {} s, killed", STALL.as_secs()) } else { status };
                        record(&sh, &mut aggs, id, class, m.bytes.len(), if hang { STALL.as_micros() } else { 0 }, 0, 0,
                               "na", m.changed, &note);
                        if hang {
                            sh.total_hangs.fetch_add(1, Ordering::SeqCst);
                            let mut h = sh.hangs.lock().unwrap();
                            let n = h.entry(ci).or_default();
                            *n += 1;
                            if *n >= HANGS_PER_CASE {
                                sh.skip.lock().unwrap().insert(ci);
                            }
                        }
                        proc = spawn_worker(&sh.ctx_path)?;
                        count_skipped(&mut aggs, from, id + 1);
                        from = id + 1;
                        continue 'chunk;
                    }
                }
            }
        }
    }
    drop(proc.stdin);
    let _ = proc.child.wait();
    Ok(aggs)
}

pub fn run(args: &[String]) -> Result<(), String> {
    if !allocator_installed() {
        return Err("the counting allocator is not installed (main.rs: #[global_allocator] static A: sat::wire::CountingAlloc)".into());
    }
    if let Some(ctx) = arg_val(args, "--worker") {
        return worker(&ctx);
    }
    let cases = arg_val(args, "--cases").ok_or("--cases")?;
    let out = arg_val(args, "--out").ok_or("--out")?;
    let seed = arg_u64(args, "--seed", 1);
    let thorough = arg_flag(args, "--thorough");
    let nworkers = arg_u64(args, "--workers", 12).clamp(1, 64) as usize;
    let t0 = Instant::now();

    let objects = build_objects()?;
    let mut objs = serde_json::Map::new();
    for (k, o) in &objects {
        objs.insert(k.clone(), json!({"bytes": hex(&o.bytes), "usk": hex(&o.usk), "enc": hex(&o.enc), "policy": o.policy}));
    }
    let ctx = json!({"cases": cases, "seed": seed, "thorough": thorough, "objects": objs});
    let ctx_path = format!("{out}.ctx.json");
    std::fs::write(&ctx_path, ctx.to_string()).map_err(|e| e.to_string())?;

    // the cutter against the grammar: a disagreement is a tool error (exit 2)
    let plan = Plan::new(&ctx).map_err(|e| format!("layout cutter disagrees with the grammar of Wire.tla: {e}"))?;
    let grammars = read_grammars(&cases)?;
    plan.verify(&grammars).map_err(|e| format!("layout cutter disagrees with the grammar of Wire.tla: {e}"))?;

    let mut w = BufWriter::new(std::fs::File::create(&out).map_err(|e| e.to_string())?);
    for t in TYPES {
        for o in OBJECTS {
            let k = format!("{t}/{o}");
            let mut paths: Vec<String> = plan.layouts[&k].iter().map(|f| f.path.clone()).collect();
            paths.sort();
            paths.dedup();
            let rec = json!({"kind": "layout", "type": t, "object": o, "len": plan.objects[&k].bytes.len(), "walked": true,
                             "nfields": plan.layouts[&k].len(), "fields": paths});
            writeln!(w, "{rec}").map_err(|e| e.to_string())?;
        }
    }
    eprintln!("[wire] {} abstract cases, {} concrete mutants, {} workers", plan.cases.len(), plan.total, nworkers);

    let sh = Arc::new(Shared {
        plan,
        next: AtomicUsize::new(0),
        skip: Mutex::new(HashSet::new()),
        hangs: Mutex::new(HashMap::new()),
        total_hangs: AtomicUsize::new(0),
        ctx_path,
    });
    let handles: Vec<_> = (0..nworkers)
        .map(|_| {
            let sh = sh.clone();
            std::thread::spawn(move || slot(sh))
        })
        .collect();
    let mut aggs: BTreeMap<(usize, String), Agg> = BTreeMap::new();
    for h in handles {
        let part = h.join().map_err(|_| "a worker slot panicked".to_string())??;
        for (k, a) in part {
            let t = aggs.entry(k).or_default();
            if t.n == 0 || a.worst_excess > t.worst_excess {
                t.worst_excess = a.worst_excess;
                t.worst_peak = a.worst_peak;
                t.worst_len = a.worst_len;
            }
            t.n += a.n;
            t.n_changed += a.n_changed;
            t.max_us = t.max_us.max(a.max_us);
            t.max_len = t.max_len.max(a.max_len);
            t.max_use_peak = t.max_use_peak.max(a.max_use_peak);
            for (u, n) in a.used {
                *t.used.entry(u).or_default() += n;
            }
            for e in a.examples {
                if t.examples.len() < 3 {
                    t.examples.push(e);
                }
            }
            if t.note.is_empty() {
                t.note = a.note;
            }
        }
    }
    let mut executed = 0u64;
    for ((ci, class), a) in &aggs {
        let c = &sh.plan.cases[*ci];
        let mut rec = json!({"kind": "case", "case": ci, "type": c["type"], "object": c["object"], "mutation": c["mutation"]});
        for f in ["field", "value"] {
            if let Some(v) = c.get(f) {
                rec[f] = v.clone();
            }
        }
        rec["class"] = json!(class);
        rec["n"] = json!(a.n);
        rec["n_changed"] = json!(a.n_changed);
        rec["max_ms"] = json!((a.max_us / 1000) as u64);
        rec["max_len"] = json!(a.max_len);
        rec["worst_peak"] = json!(a.worst_peak.min(i32::MAX as usize));
        rec["worst_len"] = json!(a.worst_len);
        rec["max_use_peak"] = json!(a.max_use_peak.min(i32::MAX as usize));
        let u = |k: &str| a.used.get(k).copied().unwrap_or(0);
        rec["used"] = json!({"ok": u("ok"), "none": u("none"), "error": u("error")});
        rec["nused"] = json!(a.used.values().sum::<u64>());
        if !a.note.is_empty() {
            rec["note"] = json!(a.note);
        }
        if !a.examples.is_empty() {
            rec["examples"] = json!(a.examples);
        }
        writeln!(w, "{rec}").map_err(|e| e.to_string())?;
        if class != "skipped" {
            executed += a.n;
        }
    }
    w.flush().map_err(|e| e.to_string())?;
    eprintln!("[wire] executed {executed} mutants in {:.1}s, {} records", t0.elapsed().as_secs_f64(), aggs.len());
    Ok(())
}
