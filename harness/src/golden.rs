//! Golden vectors (C13: "objects serialized by the pinned release keep
//! deserializing to working objects").
//!
//! `golden-gen` is run once against the pinned release (+ add-only hooks) and
//! its output committed; `golden-check` loads the vectors with the current
//! tree and checks that they are still working objects.

use std::panic::{catch_unwind, AssertUnwindSafe};

use cosmian_cover_crypt::{
    api::Covercrypt, traits::KemAc, AccessPolicy, AccessStructure, EncryptedHeader,
    EncryptionHint, MasterPublicKey, MasterSecretKey, QualifiedAttribute, UserSecretKey, XEnc,
};
use cosmian_crypto_core::bytes_ser_de::Serializable;
use serde_json::{json, Value};

use crate::util::{hex, unhex};

fn ap(s: &str) -> AccessPolicy {
    AccessPolicy::parse(s).expect("golden policy")
}

fn ser<T: Serializable>(x: &T) -> String
where
    T::Error: std::fmt::Debug,
{
    hex(&x.serialize().expect("serialize"))
}

/// A history that avoids every behaviour the properties leave open and every
/// defect found on the pinned tree (all chains of a key keep equal lengths,
/// nothing is re-keyed after being disabled, no refresh right after a prune).
pub fn generate() -> Value {
    let cc = Covercrypt::default();
    let (mut msk, mpk0) = cc.setup().unwrap();
    let empty_msk = ser(&msk);
    let empty_mpk = ser(&mpk0);
    let st = &mut msk.access_structure;
    st.add_hierarchy("SEC".into()).unwrap();
    st.add_attribute(QualifiedAttribute::new("SEC", "LOW"), EncryptionHint::Classic, None).unwrap();
    st.add_attribute(QualifiedAttribute::new("SEC", "TOP"), EncryptionHint::Hybridized, Some("LOW")).unwrap();
    st.add_anarchy("DPT".into()).unwrap();
    for (n, h) in [("RD", false), ("HR", false), ("MKG", true), ("FIN", false)] {
        st.add_attribute(QualifiedAttribute::new("DPT", n), EncryptionHint::new(h), None).unwrap();
    }
    let mpk1 = cc.update_msk(&mut msk).unwrap();
    let pols = ["SEC::TOP && (DPT::FIN || DPT::HR)", "DPT::MKG", "*", "SEC::LOW && DPT::RD"];
    let mut usks: Vec<UserSecretKey> = pols
        .iter()
        .map(|p| cc.generate_user_secret_key(&mut msk, &ap(p)).unwrap())
        .collect();
    let enc_pols = [
        "SEC::TOP && DPT::FIN",
        "SEC::LOW && DPT::HR",
        "DPT::MKG",
        "SEC::TOP && DPT::MKG",
        "DPT::RD || DPT::HR",
        "*",
        "SEC::LOW",
    ];
    let mut encs: Vec<(String, XEnc, Vec<u8>)> = Vec::new();
    for p in enc_pols {
        let (s, e) = cc.encaps(&mpk1, &ap(p)).unwrap();
        encs.push((format!("{p} @1"), e, s.to_vec()));
    }
    // second revision of every right, keys follow with their old secrets
    let mpk2 = cc.rekey(&mut msk, &ap("*")).unwrap();
    for u in usks.iter_mut().take(3) {
        cc.refresh_usk(&mut msk, u, true).unwrap();
    }
    for p in enc_pols {
        let (s, e) = cc.encaps(&mpk2, &ap(p)).unwrap();
        encs.push((format!("{p} @2"), e, s.to_vec()));
    }
    // a disabled attribute (not re-keyed afterwards)
    msk.access_structure
        .disable_attribute(&QualifiedAttribute::new("DPT", "HR"))
        .unwrap();
    let mpk3 = cc.update_msk(&mut msk).unwrap();
    let late = cc.generate_user_secret_key(&mut msk, &ap("SEC::TOP && DPT::MKG")).unwrap();
    usks.push(late);
    for p in ["SEC::TOP && DPT::FIN", "DPT::MKG", "*"] {
        let (s, e) = cc.encaps(&mpk3, &ap(p)).unwrap();
        encs.push((format!("{p} @3"), e, s.to_vec()));
    }
    // headers
    let mut headers = Vec::new();
    for (p, md, ad) in [
        ("DPT::MKG", None, None),
        ("SEC::TOP && DPT::FIN", Some(&b"golden metadata"[..]), None),
        ("SEC::LOW", Some(&b"m"[..]), Some(&b"authenticated"[..])),
    ] {
        let (s, h) = EncryptedHeader::generate(&cc, &mpk3, &ap(p), md, ad).unwrap();
        headers.push(json!({
            "pol": p, "bytes": ser(&h), "secret": hex(&s[..]),
            "md": md.map(hex), "ad": ad.map(hex),
        }));
    }
    let matrix: Vec<Value> = usks
        .iter()
        .map(|u| {
            Value::Array(
                encs.iter()
                    .map(|(_, e, s)| match cc.decaps(u, e).unwrap() {
                        Some(x) if x.to_vec() == *s => json!("same"),
                        Some(_) => json!("diff"),
                        None => json!("none"),
                    })
                    .collect(),
            )
        })
        .collect();
    let hdr_matrix: Vec<Value> = usks
        .iter()
        .map(|u| {
            Value::Array(
                headers
                    .iter()
                    .map(|h| {
                        let hd = EncryptedHeader::deserialize(&unhex(h["bytes"].as_str().unwrap())).unwrap();
                        let ad = h["ad"].as_str().map(unhex);
                        match hd.decrypt(&cc, u, ad.as_deref()).unwrap() {
                            Some(c) => json!({"secret": hex(&c.secret[..]), "md": c.metadata.map(|m| hex(&m))}),
                            None => json!("none"),
                        }
                    })
                    .collect(),
            )
        })
        .collect();
    let mpks_v = [mpk1, mpk2, mpk3].iter().map(|m| json!({"bytes": ser(m), "view": m.verif_view()})).collect::<Vec<_>>();
    let usks_v = usks.iter().zip(pols.iter().chain(["SEC::TOP && DPT::MKG"].iter()))
            .map(|(u, p)| json!({"pol": p, "bytes": ser(u), "view": u.verif_view(), "chk": msk.verif_check_usk(u)}))
            .collect::<Vec<_>>();
    let encs_v = encs.iter().map(|(p, e, s)| json!({"pol": p, "bytes": ser(e), "secret": hex(s), "view": e.verif_view()})).collect::<Vec<_>>();
    json!({
        "features": if cfg!(feature = "cfg-alt") { "alt" } else { "default" },
        "empty_msk": empty_msk,
        "empty_mpk": empty_mpk,
        "msk": {"bytes": ser(&msk), "view": msk.verif_view()},
        "mpks": mpks_v,
        "structure": {"bytes": ser(&msk.access_structure), "view": msk.access_structure.verif_view()},
        "usks": usks_v,
        "encs": encs_v,
        "headers": headers,
        "matrix": matrix,
        "hdr_matrix": hdr_matrix,
    })
}

fn guarded<T>(what: &str, fails: &mut Vec<String>, f: impl FnOnce() -> Result<T, String>) -> Option<T> {
    match catch_unwind(AssertUnwindSafe(f)) {
        Ok(Ok(v)) => Some(v),
        Ok(Err(e)) => {
            fails.push(format!("{what}: {e}"));
            None
        }
        Err(_) => {
            fails.push(format!("{what}: panic"));
            None
        }
    }
}

/// Returns (number of checks, failures).
pub fn check(g: &Value) -> (u64, Vec<String>) {
    let mut fails = Vec::new();
    let mut n = 0u64;
    let want = if cfg!(feature = "cfg-alt") { "alt" } else { "default" };
    if g["features"] != want {
        return (0, vec![format!("golden file is for features {}", g["features"])]);
    }
    let cc = Covercrypt::default();
    let b = |v: &Value| unhex(v.as_str().unwrap_or(""));
    macro_rules! load {
        ($t:ty, $v:expr, $what:expr) => {{
            n += 1;
            guarded($what, &mut fails, || {
                let bytes = b(&$v["bytes"]);
                let x = <$t>::deserialize(&bytes).map_err(|e| e.to_string())?;
                if x.verif_view() != $v["view"] {
                    return Err("view differs from the recorded one".into());
                }
                if x.length() != bytes.len() {
                    return Err("announced length differs".into());
                }
                Ok(x)
            })
        }};
    }
    let msk = load!(MasterSecretKey, g["msk"], "msk");
    let st = load!(AccessStructure, g["structure"], "structure");
    let _ = st;
    n += 2;
    guarded("empty msk", &mut fails, || {
        MasterSecretKey::deserialize(&b(&g["empty_msk"])).map(|_| ()).map_err(|e| e.to_string())
    });
    guarded("empty mpk", &mut fails, || {
        MasterPublicKey::deserialize(&b(&g["empty_mpk"])).map(|_| ()).map_err(|e| e.to_string())
    });
    let mut mpks = Vec::new();
    for (i, m) in g["mpks"].as_array().cloned().unwrap_or_default().iter().enumerate() {
        if let Some(x) = load!(MasterPublicKey, m, &format!("mpk{i}")) {
            mpks.push(x);
        }
    }
    let mut usks = Vec::new();
    for (i, u) in g["usks"].as_array().cloned().unwrap_or_default().iter().enumerate() {
        if let Some(x) = load!(UserSecretKey, u, &format!("usk{i}")) {
            usks.push((i, x));
        }
    }
    let mut encs = Vec::new();
    for (i, e) in g["encs"].as_array().cloned().unwrap_or_default().iter().enumerate() {
        if let Some(x) = load!(XEnc, e, &format!("enc{i}")) {
            encs.push((i, x, b(&e["secret"])));
        }
    }
    // decapsulation matrix
    for (ui, u) in &usks {
        for (ei, e, s) in &encs {
            n += 1;
            let want = g["matrix"][*ui][*ei].as_str().unwrap_or("?").to_string();
            guarded(&format!("decaps usk{ui} enc{ei}"), &mut fails, || {
                let got = match cc.decaps(u, e).map_err(|e| e.to_string())? {
                    Some(x) if x.to_vec() == *s => "same",
                    Some(_) => "diff",
                    None => "none",
                };
                if got == want { Ok(()) } else { Err(format!("got {got}, recorded {want}")) }
            });
        }
    }
    // headers
    for (hi, h) in g["headers"].as_array().cloned().unwrap_or_default().iter().enumerate() {
        let hd = guarded(&format!("header{hi}"), &mut fails, || {
            EncryptedHeader::deserialize(&b(&h["bytes"])).map_err(|e| e.to_string())
        });
        n += 1;
        if let Some(hd) = hd {
            for (ui, u) in &usks {
                n += 1;
                let want = &g["hdr_matrix"][*ui][hi];
                guarded(&format!("header{hi} usk{ui}"), &mut fails, || {
                    let ad = h["ad"].as_str().map(unhex);
                    let got = match hd.decrypt(&cc, u, ad.as_deref()).map_err(|e| e.to_string())? {
                        Some(c) => json!({"secret": hex(&c.secret[..]), "md": c.metadata.map(|m| hex(&m))}),
                        None => json!("none"),
                    };
                    if &got == want { Ok(()) } else { Err(format!("got {got}, recorded {want}")) }
                });
            }
        }
    }
    // the objects keep working: the public keys encapsulate, the master key
    // recognises, refreshes and generates keys
    if let Some(mut msk) = msk {
        for (i, mpk) in mpks.iter().enumerate() {
            n += 1;
            guarded(&format!("encaps under mpk{i}"), &mut fails, || {
                let (s, e) = cc.encaps(mpk, &ap("DPT::MKG")).map_err(|e| e.to_string())?;
                // usk index 1 has DPT::MKG at every revision it was refreshed to
                let _ = (s, e);
                Ok(())
            });
        }
        for (ui, u) in &usks {
            n += 1;
            guarded(&format!("usk{ui} relation"), &mut fails, || {
                let chk = msk.verif_check_usk(u);
                if chk == g["usks"][*ui]["chk"] { Ok(()) } else { Err(format!("relations now {chk}")) }
            });
        }
        for (ui, u) in &usks {
            for keep in [true, false] {
                n += 1;
                guarded(&format!("refresh usk{ui} keep={keep}"), &mut fails, || {
                    let mut u2 = u.clone();
                    cc.refresh_usk(&mut msk, &mut u2, keep).map_err(|e| e.to_string())?;
                    // what the key opened before under the newest public key it still opens
                    if let Some(mpk) = mpks.last() {
                        for (ei, e, s) in &encs {
                            let pol = g["encs"][*ei]["pol"].as_str().unwrap_or("");
                            if pol.ends_with("@3") && g["matrix"][*ui][*ei] == "same" {
                                match cc.decaps(&u2, e).map_err(|e| e.to_string())? {
                                    Some(x) if x.to_vec() == *s => {}
                                    _ => return Err(format!("refreshed key lost enc{ei}")),
                                }
                            }
                        }
                        let _ = mpk;
                    }
                    Ok(())
                });
            }
        }
        n += 1;
        guarded("keygen + encaps + decaps with loaded keys", &mut fails, || {
            let u = cc.generate_user_secret_key(&mut msk, &ap("DPT::FIN")).map_err(|e| e.to_string())?;
            let mpk = msk.mpk().map_err(|e| e.to_string())?;
            let (s, e) = cc.encaps(&mpk, &ap("SEC::TOP && DPT::FIN")).map_err(|e| e.to_string())?;
            match cc.decaps(&u, &e).map_err(|e| e.to_string())? {
                Some(x) if x == s => Ok(()),
                _ => Err("new key cannot open a new encapsulation".into()),
            }
        });
    }
    (n, fails)
}
