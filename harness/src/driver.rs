//! Lifecycle drivers: replay of op files (TLC behaviours, regression
//! histories) and seeded random histories, both with automatic probe
//! encapsulations, writing observed ndjson traces.

use std::collections::HashSet;
use std::sync::Arc;

use serde_json::{json, Value};

use crate::util::{Rng, Sink};
use crate::world::World;

/// Weights of the random driver. Every field is a relative weight.
#[derive(Clone, Debug)]
pub struct Profile {
    pub name: &'static str,
    pub dims: usize,
    pub attrs: usize,
    pub steps: usize,
    pub users: usize,
    pub encs: usize,
    pub w_add_attr: u64,
    pub w_del_attr: u64,
    pub w_rename: u64,
    pub w_disable: u64,
    pub w_add_dim: u64,
    pub w_del_dim: u64,
    pub w_update: u64,
    pub w_rekey: u64,
    pub w_prune: u64,
    pub w_keygen: u64,
    pub w_refresh: u64,
    pub w_clone: u64,
    pub w_encaps: u64,
    pub w_recaps: u64,
    pub w_header: u64,
    pub w_swap: u64,
    pub w_born: u64,
    pub w_roundtrip: u64,
    pub w_mpk: u64,
    pub w_save: u64,
    pub w_restore: u64,
    pub w_invalid: u64,
    /// macro: a structure addition left pending (no update) right before a prune
    pub w_pending_prune: u64,
    /// macro: rotate, then disable every attribute an encapsulation names, update, re-encapsulate it
    pub w_recaps_dead: u64,
    /// macro: insert several attributes at chosen ranks of a hierarchy, update, issue keys on its levels
    pub w_grow: u64,
    /// macro: rekey, [refresh], [prune], refresh of one key -- every flag combination
    pub w_rot_cycle: u64,
    /// macro: the master key is stored and reloaded in the state it is in (after an optional disable + update), then used
    pub w_reload: u64,
    /// macro: many key generations (the registered identifiers pile up), then the master key is stored and reloaded
    pub w_crowd: u64,
    pub hyb: u64,
}

pub fn profile(name: &str) -> Profile {
    let base = Profile {
        name: "full",
        dims: 2,
        attrs: 3,
        steps: 30,
        users: 3,
        encs: 6,
        w_add_attr: 4,
        w_del_attr: 3,
        w_rename: 2,
        w_disable: 2,
        w_add_dim: 1,
        w_del_dim: 1,
        w_update: 6,
        w_rekey: 5,
        w_prune: 3,
        w_keygen: 5,
        w_refresh: 8,
        w_clone: 2,
        w_encaps: 8,
        w_recaps: 3,
        w_header: 2,
        w_swap: 1,
        w_born: 1,
        w_roundtrip: 3,
        w_mpk: 1,
        w_save: 0,
        w_restore: 0,
        w_invalid: 2,
        w_pending_prune: 1,
        w_recaps_dead: 1,
        w_grow: 1,
        w_rot_cycle: 2,
        w_reload: 2,
        w_crowd: 0,
        hyb: 3,
    };
    match name {
        "static" => Profile {
            name: "static",
            steps: 14,
            w_add_attr: 0,
            w_del_attr: 0,
            w_rename: 0,
            w_disable: 0,
            w_add_dim: 0,
            w_del_dim: 0,
            w_update: 0,
            w_rekey: 0,
            w_prune: 0,
            w_refresh: 0,
            w_clone: 0,
            w_recaps: 0,
            w_header: 1,
            w_swap: 0,
            w_born: 0,
            w_roundtrip: 0,
            w_mpk: 0,
            w_invalid: 0,
            w_pending_prune: 0,
            w_recaps_dead: 0,
            w_grow: 0,
            w_rot_cycle: 0,
            w_reload: 0,
            w_keygen: 5,
            w_encaps: 9,
            users: 5,
            encs: 9,
            dims: 3,
            ..base
        },
        "edits" => Profile {
            name: "edits",
            w_rekey: 1,
            w_prune: 0,
            w_recaps: 0,
            w_add_attr: 6,
            w_del_attr: 5,
            w_rename: 4,
            w_disable: 1,
            w_add_dim: 2,
            w_del_dim: 2,
            w_update: 9,
            ..base
        },
        "rotation" => Profile {
            name: "rotation",
            w_add_attr: 0,
            w_del_attr: 0,
            w_rename: 0,
            w_disable: 0,
            w_add_dim: 0,
            w_del_dim: 0,
            w_update: 1,
            w_rekey: 10,
            w_prune: 0,
            w_recaps: 0,
            w_refresh: 10,
            w_clone: 4,
            w_rot_cycle: 5,
            w_pending_prune: 0,
            w_recaps_dead: 0,
            w_grow: 0,
            ..base
        },
        "revocation" => Profile {
            name: "revocation",
            w_add_attr: 3,
            w_rename: 0,
            w_disable: 0,
            w_add_dim: 0,
            w_del_attr: 4,
            w_del_dim: 2,
            w_rekey: 8,
            w_prune: 7,
            w_recaps: 0,
            w_refresh: 10,
            w_clone: 3,
            w_pending_prune: 4,
            w_recaps_dead: 0,
            w_rot_cycle: 5,
            ..base
        },
        "disable" => Profile {
            name: "disable",
            w_add_attr: 3,
            w_del_attr: 0,
            w_rename: 2,
            w_reload: 4,
            w_add_dim: 1,
            w_del_dim: 0,
            w_disable: 6,
            w_rekey: 7,
            w_prune: 4,
            w_roundtrip: 5,
            w_mpk: 4,
            w_recaps: 1,
            ..base
        },
        "recaps" => Profile {
            name: "recaps",
            w_add_attr: 0,
            w_rename: 0,
            w_add_dim: 0,
            w_del_dim: 0,
            w_del_attr: 2,
            w_disable: 3,
            w_rekey: 7,
            w_prune: 4,
            w_recaps: 10,
            w_encaps: 8,
            w_recaps_dead: 4,
            w_grow: 0,
            ..base
        },
        "ids" => Profile {
            name: "ids",
            w_add_attr: 0,
            w_del_attr: 0,
            w_rename: 0,
            w_disable: 0,
            w_add_dim: 0,
            w_del_dim: 0,
            w_update: 1,
            w_rekey: 3,
            w_prune: 1,
            w_recaps: 0,
            w_keygen: 8,
            w_refresh: 8,
            w_roundtrip: 8,
            w_save: 3,
            w_restore: 3,
            w_clone: 1,
            w_pending_prune: 0,
            w_recaps_dead: 0,
            w_grow: 0,
            users: 5,
            ..base
        },
        // additions and renames only (never a deletion, so no identifier is ever shared): hierarchies grown
        // by insertion at every rank, keys issued before and after
        "grow" => Profile {
            name: "grow",
            attrs: 2,
            steps: 24,
            w_add_attr: 5,
            w_del_attr: 0,
            w_del_dim: 0,
            w_swap: 0,
            w_born: 0,
            w_rename: 3,
            w_disable: 1,
            w_add_dim: 1,
            w_update: 8,
            w_rekey: 1,
            w_prune: 0,
            w_recaps: 0,
            w_keygen: 8,
            w_refresh: 4,
            w_encaps: 6,
            w_grow: 6,
            w_reload: 4,
            w_pending_prune: 0,
            w_recaps_dead: 0,
            users: 5,
            ..base
        },
        // a small classic structure and many issued keys: the set of registered identifiers grows large
        // relative to the rest of the master key
        "crowd" => Profile {
            name: "crowd",
            dims: 1,
            attrs: 2,
            steps: 10,
            hyb: 0,
            w_add_attr: 0,
            w_del_attr: 0,
            w_rename: 0,
            w_disable: 0,
            w_add_dim: 0,
            w_del_dim: 0,
            w_swap: 0,
            w_born: 0,
            w_update: 1,
            w_rekey: 2,
            w_prune: 1,
            w_recaps: 0,
            w_header: 0,
            w_keygen: 3,
            w_refresh: 6,
            w_roundtrip: 3,
            w_encaps: 2,
            w_grow: 0,
            w_pending_prune: 0,
            w_recaps_dead: 0,
            w_rot_cycle: 1,
            w_reload: 2,
            w_crowd: 6,
            w_invalid: 0,
            users: 4,
            ..base
        },
        "big" => Profile {
            name: "big",
            dims: 3,
            attrs: 4,
            steps: 45,
            users: 4,
            encs: 8,
            ..base
        },
        _ => base,
    }
}

const DIMS: [&str; 4] = ["D1", "D2", "D3", "D4"];
const NAMES: [&str; 8] = ["a", "b", "c", "d", "e", "f", "g", "h"];

pub struct Driver {
    pub world: World,
    pub sink: Arc<Sink>,
    pub prev_keys: std::collections::HashMap<String, u64>,
    pub prev_unpub: HashSet<String>,
    pub probes: bool,
    pub n_enc: usize,
    pub n_user: usize,
    pub n_name: usize,
    pub history: u64,
    pub nsaved: usize,
}

impl Driver {
    pub fn new(sink: Arc<Sink>, probes: bool) -> Result<Self, String> {
        let world = World::new(sink.clone())?;
        Ok(Driver {
            world,
            sink,
            prev_keys: Default::default(),
            prev_unpub: HashSet::new(),
            probes,
            n_enc: 0,
            n_user: 0,
            n_name: 0,
            history: 0,
            nsaved: 0,
        })
    }

    pub fn reset(&mut self, meta: &Value) -> Result<(), String> {
        self.world = World::new(self.sink.clone())?;
        self.prev_keys.clear();
        self.prev_unpub.clear();
        self.n_enc = 0;
        self.n_user = 0;
        self.n_name = 0;
        self.nsaved = 0;
        self.history += 1;
        let mut ev = self.world.reset_event();
        if let Some(o) = meta.as_object() {
            for (k, v) in o {
                if k != "k" {
                    ev[k] = v.clone();
                }
            }
        }
        ev["hist"] = json!(self.history);
        self.sink.line(&ev);
        self.after_mpk(&ev);
        Ok(())
    }

    /// Runs one op, writes its event, then probe encapsulations when the op
    /// returned a public key publishing values never probed before.
    pub fn step(&mut self, op: &Value) -> Value {
        let ev = self.world.exec(op);
        self.sink.line(&ev);
        if ev["res"] == "ok" && ev.get("mpkv").is_some() {
            self.after_mpk(&ev);
        }
        ev
    }

    fn after_mpk(&mut self, ev: &Value) {
        if !self.probes {
            return;
        }
        let k = ev["mpk"].as_u64().unwrap_or(0);
        let mpkv = &ev["mpkv"];
        // id -> (dim, name) from the public key's own structure snapshot
        let mut by_id: Vec<(u64, String, String)> = Vec::new();
        if let Some(dims) = mpkv["st"].as_array() {
            for d in dims {
                for a in d["attrs"].as_array().cloned().unwrap_or_default() {
                    by_id.push((
                        a["id"].as_u64().unwrap_or(u64::MAX),
                        d["d"].as_str().unwrap_or("").to_string(),
                        a["n"].as_str().unwrap_or("").to_string(),
                    ));
                }
            }
        }
        let clause_of = |r: &Value| -> Option<Value> {
            let ids: Vec<u64> = r.as_array()?.iter().filter_map(Value::as_u64).collect();
            let mut clause = Vec::new();
            let mut dims_used = HashSet::new();
            for id in &ids {
                match by_id.iter().find(|(i, _, _)| i == id) {
                    Some((_, d, n)) if dims_used.insert(d.clone()) => clause.push(json!([d, n])),
                    _ => return None,
                }
            }
            Some(json!([clause]))
        };
        // positive probes: every right whose published value differs from the one the PREVIOUS
        // public key published for it (new right, rotated right, or a value that came back)
        let mut keys_now: std::collections::HashMap<String, u64> = std::collections::HashMap::new();
        let mut todo: Vec<(Value, bool)> = Vec::new();
        for key in mpkv["keys"].as_array().cloned().unwrap_or_default() {
            let p = key["p"].as_u64().unwrap_or(0);
            let rk = key["r"].to_string();
            keys_now.insert(rk.clone(), p);
            if self.prev_keys.get(&rk) == Some(&p) {
                continue;
            }
            if let Some(pol) = clause_of(&key["r"]) {
                todo.push((pol, false));
            }
        }
        // negative probes: rights the master key holds but this public key does not publish, when that
        // is news (published or unknown before): encapsulating for them must fail
        let mskv = self.world.msk.verif_view();
        let mut unpub_now: HashSet<String> = HashSet::new();
        for r in mskv["rights"].as_array().cloned().unwrap_or_default() {
            let rk = r["r"].to_string();
            if keys_now.contains_key(&rk) {
                continue;
            }
            unpub_now.insert(rk.clone());
            if self.prev_unpub.contains(&rk) {
                continue;
            }
            if let Some(pol) = clause_of(&r["r"]) {
                todo.push((pol, true));
            }
        }
        self.prev_keys = keys_now;
        self.prev_unpub = unpub_now;
        for (pol, neg) in todo {
            self.n_enc += 1;
            let mut op = json!({"op": "encaps", "e": format!("p{}", self.n_enc), "mpk": k, "pol": pol, "probe": true});
            if neg {
                op["neg"] = json!(true);
            }
            let ev = self.world.exec(&op);
            self.sink.line(&ev);
        }
    }

    // ---------------------------------------------------------------- random

    fn rand_clause(&self, rng: &mut Rng, st: &[(String, String, Vec<(String, u64, bool, bool)>)]) -> Vec<Value> {
        let mut clause = Vec::new();
        for (d, _, attrs) in st {
            if attrs.is_empty() || rng.chance(2, 5) {
                continue;
            }
            let a = &attrs[rng.below(attrs.len())];
            clause.push(json!([d, a.0]));
        }
        clause
    }

    fn rand_policy(&self, rng: &mut Rng, p: &Profile, for_enc: bool) -> Value {
        let st = self.world.structure();
        let nclauses = if for_enc && p.w_recaps >= 8 {
            1 + rng.below(3)
        } else if rng.chance(1, 3) {
            2
        } else {
            1
        };
        let mut clauses = Vec::new();
        for _ in 0..nclauses {
            let mut c = self.rand_clause(rng, &st);
            if c.is_empty() && nclauses > 1 {
                // "*" cannot be a member of a disjunction in a policy string
                if let Some((d, _, attrs)) = st.iter().find(|(_, _, a)| !a.is_empty()) {
                    c.push(json!([d, attrs[0].0]));
                }
            }
            if p.w_invalid > 0 && rng.chance(p.w_invalid, 60) {
                match rng.below(3) {
                    0 => c.push(json!(["D9", "zz"])),
                    1 => {
                        if let Some((d, _, _)) = st.first() {
                            c.push(json!([d, "zz"]));
                        }
                    }
                    _ => {
                        if for_enc {
                            if let Some((d, _, attrs)) = st.iter().find(|(_, _, a)| a.len() > 1) {
                                c = vec![json!([d, attrs[0].0]), json!([d, attrs[1].0])];
                            }
                        }
                    }
                }
            }
            clauses.push(Value::Array(c));
        }
        if clauses.iter().any(|c| c.as_array().unwrap().is_empty()) {
            return json!([[]]);
        }
        Value::Array(clauses)
    }

    /// Sometimes spells a policy with the broadcast "*" as an operand: `P || *` and `(*) || P` mean "*",
    /// `P && *` means P. Returns (DNF the trace specification reasons with, string for the real parser).
    fn star_variant(&self, rng: &mut Rng, pol: Value) -> (Value, Option<String>) {
        if pol == json!([[]]) || !rng.chance(1, 12) {
            return (pol, None);
        }
        let src = crate::world::dnf_to_src(&pol);
        match rng.below(3) {
            0 => (json!([[]]), Some(format!("({src}) || *"))),
            1 => (json!([[]]), Some(format!("(*) || ({src})"))),
            _ => (pol, Some(format!("({src}) && *"))),
        }
    }

    fn fresh_name(&mut self) -> String {
        self.n_name += 1;
        format!("n{}", self.n_name)
    }

    pub fn random_history(&mut self, seed: u64, p: &Profile) -> Result<(), String> {
        let mut rng = Rng::new(seed);
        self.reset(&json!({"seed": seed, "profile": p.name}))?;
        // initial structure
        let ndims = 1 + rng.below(p.dims);
        for d in DIMS.iter().take(ndims) {
            let kind = if rng.chance(1, 2) { "H" } else { "A" };
            self.step(&json!({"op": "add_dim", "d": d, "kind": kind}));
            let n = 1 + rng.below(p.attrs);
            for name in NAMES.iter().take(n) {
                let mut op = json!({"op": "add_attr", "d": d, "n": name, "hint": rng.chance(p.hyb, 10)});
                if kind == "H" && rng.chance(1, 2) {
                    let st = self.world.structure();
                    if let Some((_, _, attrs)) = st.iter().find(|(x, _, _)| x == d) {
                        if let Some(a) = rng.pick(attrs) {
                            op["after"] = json!(a.0);
                        }
                    }
                }
                self.step(&op);
            }
        }
        self.step(&json!({"op": "update"}));

        let weights: Vec<(&str, u64)> = vec![
            ("add_attr", p.w_add_attr),
            ("del_attr", p.w_del_attr),
            ("rename", p.w_rename),
            ("disable", p.w_disable),
            ("add_dim", p.w_add_dim),
            ("del_dim", p.w_del_dim),
            ("update", p.w_update),
            ("rekey", p.w_rekey),
            ("prune", p.w_prune),
            ("keygen", p.w_keygen),
            ("refresh", p.w_refresh),
            ("clone_usk", p.w_clone),
            ("encaps", p.w_encaps),
            ("recaps", p.w_recaps),
            ("header", p.w_header),
            ("swap_attr", p.w_swap),
            ("born_disabled", p.w_born),
            ("pending_prune", p.w_pending_prune),
            ("recaps_dead", p.w_recaps_dead),
            ("grow", p.w_grow),
            ("rot_cycle", p.w_rot_cycle),
            ("reload", p.w_reload),
            ("crowd", p.w_crowd),
            ("roundtrip", p.w_roundtrip),
            ("mpk", p.w_mpk),
            ("save_msk", p.w_save),
            ("restore_msk", p.w_restore),
        ];
        let total: u64 = weights.iter().map(|(_, w)| w).sum();
        for _ in 0..p.steps {
            let mut x = rng.next() % total.max(1);
            let mut kind = "update";
            for (k, w) in &weights {
                if x < *w {
                    kind = k;
                    break;
                }
                x -= w;
            }
            let st = self.world.structure();
            let users: Vec<String> = self.world.usks.keys().cloned().collect();
            let encs: Vec<String> = self.world.encs.keys().cloned().collect();
            let nmpk = self.world.mpks.len();
            let invalid = p.w_invalid > 0 && rng.chance(p.w_invalid, 40);
            let op = match kind {
                "add_attr" => {
                    let d = if invalid && rng.chance(1, 2) {
                        "D9".to_string()
                    } else {
                        match rng.pick(&st) {
                            Some(x) => x.0.clone(),
                            None => continue,
                        }
                    };
                    let total_attrs: usize = st.iter().map(|x| x.2.len()).sum();
                    if total_attrs >= p.attrs * p.dims + 1 {
                        continue;
                    }
                    let existing = st.iter().find(|x| x.0 == d).map(|x| x.2.clone()).unwrap_or_default();
                    let n = if invalid && !existing.is_empty() {
                        existing[rng.below(existing.len())].0.clone()
                    } else if rng.chance(1, 2) {
                        // re-use a classic name when free (names can come back after deletion)
                        match NAMES.iter().find(|n| !existing.iter().any(|a| a.0 == **n)) {
                            Some(n) => n.to_string(),
                            None => self.fresh_name(),
                        }
                    } else {
                        self.fresh_name()
                    };
                    let mut op = json!({"op": "add_attr", "d": d, "n": n, "hint": rng.chance(p.hyb, 10)});
                    let is_anarchy = st.iter().any(|x| x.0 == d && x.1 == "A");
                    if is_anarchy && rng.chance(1, 4) {
                        // `after` has no effect in an anarchy, whatever it names
                        op["after"] = json!(["zz", "a", "LOW", "gone"][rng.below(4)]);
                    } else if rng.chance(1, 2) {
                        if invalid && rng.chance(1, 2) {
                            op["after"] = json!("zz");
                        } else if let Some(a) = rng.pick(&existing) {
                            op["after"] = json!(a.0);
                        }
                    }
                    op
                }
                "del_attr" | "disable" | "rename" => {
                    let (d, n) = if invalid {
                        (st.first().map(|x| x.0.clone()).unwrap_or("D9".into()), "zz".to_string())
                    } else {
                        let cands: Vec<(String, String)> = st
                            .iter()
                            .flat_map(|x| x.2.iter().map(move |a| (x.0.clone(), a.0.clone())))
                            .collect();
                        match rng.pick(&cands) {
                            Some(c) => c.clone(),
                            None => continue,
                        }
                    };
                    if kind == "rename" {
                        let to = if rng.chance(1, 6) {
                            // possibly an existing name: must be refused
                            st.iter()
                                .find(|x| x.0 == d)
                                .and_then(|x| x.2.first().map(|a| a.0.clone()))
                                .unwrap_or_else(|| "r0".into())
                        } else {
                            format!("r{}", self.fresh_name())
                        };
                        json!({"op": "rename", "d": d, "n": n, "to": to})
                    } else {
                        json!({"op": kind, "d": d, "n": n})
                    }
                }
                "add_dim" => {
                    let d = if invalid {
                        st.first().map(|x| x.0.clone()).unwrap_or("D1".into())
                    } else {
                        match DIMS.iter().find(|d| !st.iter().any(|x| x.0 == **d)) {
                            Some(d) => d.to_string(),
                            None => continue,
                        }
                    };
                    if !invalid && st.len() >= p.dims + 1 {
                        continue;
                    }
                    json!({"op": "add_dim", "d": d, "kind": if rng.chance(1, 2) {"H"} else {"A"}})
                }
                "del_dim" => {
                    let d = if invalid {
                        "D9".to_string()
                    } else {
                        match rng.pick(&st) {
                            Some(x) => x.0.clone(),
                            None => continue,
                        }
                    };
                    json!({"op": "del_dim", "d": d})
                }
                "update" => json!({"op": "update"}),
                "mpk" => json!({"op": "mpk"}),
                "rekey" | "prune" => {
                    let pol = self.rand_policy(&mut rng, p, false);
                    let (pol, src) = self.star_variant(&mut rng, pol);
                    let mut op = json!({"op": kind, "pol": pol});
                    if let Some(src) = src {
                        op["src"] = json!(src);
                    }
                    op
                }
                "keygen" => {
                    if users.len() >= p.users {
                        // replace a key
                        let u = users[rng.below(users.len())].clone();
                        self.step(&json!({"op": "drop_usk", "u": u}));
                    }
                    self.n_user += 1;
                    let pol = self.rand_policy(&mut rng, p, false);
                    let (pol, src) = self.star_variant(&mut rng, pol);
                    let mut op = json!({"op": "keygen", "u": format!("u{}", self.n_user), "pol": pol});
                    if let Some(src) = src {
                        op["src"] = json!(src);
                    }
                    op
                }
                "refresh" => match rng.pick(&users) {
                    Some(u) => json!({"op": "refresh", "u": u, "keep": rng.chance(1, 2)}),
                    None => continue,
                },
                "clone_usk" => match rng.pick(&users) {
                    Some(u) if users.len() < p.users + 1 => {
                        self.n_user += 1;
                        json!({"op": "clone_usk", "u": format!("u{}", self.n_user), "from": u})
                    }
                    _ => continue,
                },
                "encaps" => {
                    let user_encs: Vec<&String> = encs.iter().filter(|e| e.starts_with('e')).collect();
                    if user_encs.len() >= p.encs {
                        let e = user_encs[rng.below(user_encs.len())].clone();
                        self.step(&json!({"op": "drop_enc", "e": e}));
                    }
                    self.n_enc += 1;
                    // any previously published key, biased to the newest
                    let k = if rng.chance(2, 3) { nmpk } else { 1 + rng.below(nmpk) };
                    // the policy is drawn over the current structure; older
                    // public keys may not know it, which is part of the test
                    let pol = self.rand_policy(&mut rng, p, true);
                    let (pol, src) = self.star_variant(&mut rng, pol);
                    let mut op = json!({"op": "encaps", "e": format!("e{}", self.n_enc), "mpk": k, "pol": pol});
                    if let Some(src) = src {
                        op["src"] = json!(src);
                    }
                    op
                }
                "swap_attr" => {
                    // replace the most recently created attribute by a new one with the opposite hint,
                    // without an update in between (the new attribute takes over what the old one left)
                    let newest = st
                        .iter()
                        .flat_map(|x| x.2.iter().map(move |a| (x.0.clone(), a.0.clone(), a.1, a.2)))
                        .max_by_key(|x| x.2);
                    match newest {
                        Some((d, n, _, h)) => {
                            self.step(&json!({"op": "del_attr", "d": d, "n": n}));
                            json!({"op": "add_attr", "d": d, "n": self.fresh_name(), "hint": !h})
                        }
                        None => continue,
                    }
                }
                "born_disabled" => {
                    // a batch of edits containing a right that is born disabled: the update must fail and
                    // leave the master key untouched, whatever else the batch adds or removes
                    let d = match rng.pick(&st) {
                        Some(x) => x.0.clone(),
                        None => continue,
                    };
                    let n = self.fresh_name();
                    self.step(&json!({"op": "add_attr", "d": d, "n": n, "hint": rng.chance(p.hyb, 10)}));
                    self.step(&json!({"op": "disable", "d": d, "n": n}));
                    for _ in 0..rng.below(3) {
                        let cands: Vec<(String, String)> = self
                            .world
                            .structure()
                            .iter()
                            .flat_map(|x| x.2.iter().map(move |a| (x.0.clone(), a.0.clone())))
                            .filter(|(_, a)| *a != n)
                            .collect();
                        if let Some((dd, a)) = rng.pick(&cands) {
                            self.step(&json!({"op": "del_attr", "d": dd, "n": a}));
                        }
                    }
                    self.step(&json!({"op": "update"}));
                    if rng.chance(2, 3) {
                        self.step(&json!({"op": "del_attr", "d": d, "n": n}));
                    }
                    json!({"op": "update"})
                }
                "pending_prune" => {
                    // prune while a structure addition is pending (not yet applied by an update): the policy
                    // then expands to rights the master key does not hold yet, next to the ones it must prune
                    let pol = self.rand_policy(&mut rng, p, false);
                    if rng.chance(1, 2) {
                        self.step(&json!({"op": "rekey", "pol": pol.clone()}));
                        for u in &users {
                            if rng.chance(1, 2) {
                                self.step(&json!({"op": "refresh", "u": u, "keep": true}));
                            }
                        }
                    }
                    let dims_now: Vec<String> = st.iter().map(|x| x.0.clone()).collect();
                    if rng.chance(1, 2) && st.len() <= p.dims {
                        if let Some(d) = DIMS.iter().find(|d| !dims_now.iter().any(|x| x == **d)) {
                            self.step(&json!({"op": "add_dim", "d": d, "kind": if rng.chance(1, 2) {"H"} else {"A"}}));
                            for _ in 0..(1 + rng.below(2)) {
                                let n = self.fresh_name();
                                self.step(&json!({"op": "add_attr", "d": d, "n": n, "hint": rng.chance(p.hyb, 10)}));
                            }
                        }
                    } else if let Some(x) = rng.pick(&st) {
                        let n = self.fresh_name();
                        self.step(&json!({"op": "add_attr", "d": x.0, "n": n, "hint": rng.chance(p.hyb, 10)}));
                    }
                    self.step(&json!({"op": "prune", "pol": pol}));
                    self.step(&json!({"op": "update"}));
                    for u in &users {
                        self.step(&json!({"op": "refresh", "u": u, "keep": true}));
                    }
                    continue;
                }
                "recaps_dead" => {
                    // rotate the rights of a kept encapsulation, disable every attribute it names, update, then
                    // re-encapsulate it under the newest public key: nothing it targets is published any more
                    let cands: Vec<(String, Value)> = self
                        .world
                        .encs
                        .iter()
                        .filter(|(_, r)| r.pol.as_array().map_or(false, |cs| !cs.is_empty() && cs.iter().all(|c| c.as_array().map_or(false, |c| !c.is_empty()))))
                        .map(|(e, r)| (e.clone(), r.pol.clone()))
                        .collect();
                    let (from, pol) = match rng.pick(&cands) {
                        Some(x) => x.clone(),
                        None => continue,
                    };
                    if rng.chance(3, 4) {
                        self.step(&json!({"op": "rekey", "pol": pol.clone()}));
                    }
                    let mut named: Vec<(String, String)> = Vec::new();
                    for c in pol.as_array().unwrap() {
                        for a in c.as_array().unwrap() {
                            let x = (a[0].as_str().unwrap_or("").to_string(), a[1].as_str().unwrap_or("").to_string());
                            if !named.contains(&x) {
                                named.push(x);
                            }
                        }
                    }
                    // usually every clause loses one attribute (the whole audience is gone), sometimes only some
                    let all = rng.chance(3, 4);
                    for c in pol.as_array().unwrap() {
                        let attrs = c.as_array().unwrap();
                        if all || rng.chance(1, 2) {
                            let a = &attrs[rng.below(attrs.len())];
                            self.step(&json!({"op": "disable", "d": a[0], "n": a[1]}));
                        }
                    }
                    self.step(&json!({"op": "update"}));
                    self.n_enc += 1;
                    json!({"op": "recaps", "e": format!("e{}", self.n_enc), "from": from, "mpk": self.world.mpks.len()})
                }
                "grow" => {
                    // insert attributes at chosen ranks of a hierarchy (bottom, above any existing attribute),
                    // update, then issue one key per level or so and let the probes cover every level
                    let hier: Vec<(String, Vec<String>)> = st
                        .iter()
                        .filter(|x| x.1 == "H")
                        .map(|x| (x.0.clone(), x.2.iter().map(|a| a.0.clone()).collect()))
                        .collect();
                    let (d, mut names) = match rng.pick(&hier) {
                        Some(x) => x.clone(),
                        None => continue,
                    };
                    for _ in 0..(1 + rng.below(3)) {
                        let n = self.fresh_name();
                        let mut op = json!({"op": "add_attr", "d": d, "n": n, "hint": rng.chance(p.hyb, 10)});
                        if !names.is_empty() && rng.chance(4, 5) {
                            // biased to the low ranks: that is where several attributes sit above the new one
                            let top = 1 + rng.below(names.len());
                            let i = rng.below(top);
                            op["after"] = json!(names[i]);
                            names.insert(i + 1, n.clone());
                        } else {
                            names.insert(0, n.clone());
                        }
                        self.step(&op);
                    }
                    self.step(&json!({"op": "update"}));
                    for n in &names {
                        if rng.chance(1, 2) && self.world.usks.len() < p.users + 2 {
                            self.n_user += 1;
                            self.step(&json!({"op": "keygen", "u": format!("u{}", self.n_user), "pol": [[[d, n]]]}));
                        }
                    }
                    for u in &users {
                        if rng.chance(1, 3) {
                            self.step(&json!({"op": "refresh", "u": u, "keep": rng.chance(1, 2)}));
                        }
                    }
                    continue;
                }
                "rot_cycle" => {
                    // one key through a rotation: rekey, [refresh with a flag], [prune], refresh with a flag
                    let pol = self.rand_policy(&mut rng, p, false);
                    let u = match rng.pick(&users) {
                        Some(u) => u.clone(),
                        None => {
                            self.n_user += 1;
                            let u = format!("u{}", self.n_user);
                            self.step(&json!({"op": "keygen", "u": u, "pol": pol.clone()}));
                            u
                        }
                    };
                    self.step(&json!({"op": "rekey", "pol": pol.clone()}));
                    if rng.chance(1, 2) {
                        self.step(&json!({"op": "refresh", "u": u, "keep": rng.chance(2, 3)}));
                    }
                    if rng.chance(1, 2) {
                        self.step(&json!({"op": "prune", "pol": pol.clone()}));
                    }
                    if rng.chance(1, 4) {
                        self.step(&json!({"op": "roundtrip", "obj": "usk", "u": u}));
                    }
                    json!({"op": "refresh", "u": u, "keep": rng.chance(1, 2)})
                }
                "reload" => {
                    // the master key is stored and reloaded in the state it is in -- sometimes right after an attribute
                    // was disabled -- and then used: update, keys for single attributes, refreshes
                    let attrs: Vec<(String, String)> = st.iter().flat_map(|x| x.2.iter().map(move |a| (x.0.clone(), a.0.clone()))).collect();
                    if p.w_disable > 0 && rng.chance(1, 3) {
                        if let Some((d, n)) = rng.pick(&attrs) {
                            self.step(&json!({"op": "disable", "d": d, "n": n}));
                            self.step(&json!({"op": "update"}));
                        }
                    }
                    self.step(&json!({"op": "roundtrip", "obj": if rng.chance(3, 4) {"msk"} else {"st"}}));
                    if rng.chance(2, 3) {
                        self.step(&json!({"op": "update"}));
                    }
                    for _ in 0..(1 + rng.below(2)) {
                        if let Some((d, n)) = rng.pick(&attrs) {
                            if self.world.usks.len() < p.users + 2 {
                                self.n_user += 1;
                                self.step(&json!({"op": "keygen", "u": format!("u{}", self.n_user), "pol": [[[d, n]]]}));
                            }
                        }
                    }
                    match rng.pick(&users) {
                        Some(u) => json!({"op": "refresh", "u": u, "keep": rng.chance(1, 2)}),
                        None => continue,
                    }
                }
                "crowd" => {
                    // many issued keys (only the last few handles are kept; the master key registers every identifier)
                    let n = 12 + rng.below(40);
                    for _ in 0..n {
                        self.n_user += 1;
                        let u = format!("u{}", self.n_user);
                        self.step(&json!({"op": "keygen", "u": u, "pol": [[]]}));
                        if self.world.usks.len() > p.users {
                            let old: Vec<String> = self.world.usks.keys().cloned().collect();
                            if let Some(o) = old.iter().find(|x| **x != u) {
                                self.step(&json!({"op": "drop_usk", "u": o}));
                            }
                        }
                    }
                    self.step(&json!({"op": "roundtrip", "obj": "msk"}));
                    let kept: Vec<String> = self.world.usks.keys().cloned().collect();
                    for u in &kept {
                        self.step(&json!({"op": "refresh", "u": u, "keep": rng.chance(1, 2)}));
                    }
                    json!({"op": "roundtrip", "obj": "msk"})
                }
                "header" => {
                    let k = if rng.chance(2, 3) { nmpk } else { 1 + rng.below(nmpk) };
                    let mut op = json!({"op": "header", "mpk": k, "pol": self.rand_policy(&mut rng, p, true)});
                    match rng.below(3) {
                        0 => {}
                        1 => op["md"] = json!(""),
                        _ => op["md"] = json!("m".repeat(1 + rng.below(40))),
                    }
                    if rng.chance(1, 2) {
                        op["ad"] = json!(if rng.chance(1, 3) { "".to_string() } else { "aad".repeat(1 + rng.below(3)) });
                    }
                    op
                }
                "recaps" => match {
                    // prefer encapsulations with several targets: that is where the audience can shrink
                    let multi: Vec<String> = self
                        .world
                        .encs
                        .iter()
                        .filter(|(_, r)| r.enc.count() >= 2)
                        .map(|(e, _)| e.clone())
                        .collect();
                    if !multi.is_empty() && rng.chance(3, 5) {
                        rng.pick(&multi).cloned()
                    } else {
                        rng.pick(&encs).cloned()
                    }
                } {
                    Some(from) => {
                        self.n_enc += 1;
                        let k = if rng.chance(3, 4) { nmpk } else { 1 + rng.below(nmpk) };
                        json!({"op": "recaps", "e": format!("e{}", self.n_enc), "from": from, "mpk": k})
                    }
                    None => continue,
                },
                "roundtrip" => match rng.below(5) {
                    0 => json!({"op": "roundtrip", "obj": "msk"}),
                    1 => json!({"op": "roundtrip", "obj": "mpk", "mpk": 1 + rng.below(nmpk)}),
                    2 => match rng.pick(&users) {
                        Some(u) => json!({"op": "roundtrip", "obj": "usk", "u": u}),
                        None => continue,
                    },
                    3 => match rng.pick(&encs) {
                        Some(e) => json!({"op": "roundtrip", "obj": "enc", "e": e}),
                        None => continue,
                    },
                    _ => json!({"op": "roundtrip", "obj": "st"}),
                },
                "save_msk" => {
                    self.nsaved += 1;
                    json!({"op": "save_msk", "slot": format!("s{}", self.nsaved)})
                }
                "restore_msk" => {
                    if self.nsaved == 0 {
                        continue;
                    }
                    json!({"op": "restore_msk", "slot": format!("s{}", 1 + rng.below(self.nsaved))})
                }
                _ => continue,
            };
            let ev = self.step(&op);
            if ev["res"] == "hang" {
                break;
            }
        }
        Ok(())
    }
}

/// `replay <ops.ndjson> <out.ndjson>`
pub fn replay(ops_path: &str, sink: Arc<Sink>, probes: bool) -> Result<u64, String> {
    let text = std::fs::read_to_string(ops_path).map_err(|e| format!("{ops_path}: {e}"))?;
    let mut d = Driver::new(sink.clone(), probes)?;
    let mut n = 0;
    let mut started = false;
    for line in text.lines() {
        let line = line.trim();
        if line.is_empty() {
            continue;
        }
        let op: Value = serde_json::from_str(line).map_err(|e| format!("bad op line: {e}: {line}"))?;
        if op["k"] == "reset" {
            d.reset(&op)?;
            started = true;
            n += 1;
            continue;
        }
        if !started {
            d.reset(&json!({}))?;
            started = true;
            n += 1;
        }
        d.step(&op);
    }
    sink.flush();
    Ok(n)
}

/// `random --profile P --seed S --from A --to B`
pub fn random(p: &Profile, seed: u64, from: u64, to: u64, sink: Arc<Sink>) -> Result<u64, String> {
    let mut d = Driver::new(sink.clone(), true)?;
    for i in from..to {
        d.random_history(seed.wrapping_mul(1_000_003).wrapping_add(i), p)?;
        sink.flush();
    }
    Ok(to - from)
}
