//! Small utilities: PRNG, JSON helpers, fingerprint renaming, watchdog.

use serde_json::{json, Map, Value};
use std::collections::HashMap;
use std::io::Write;
use std::sync::atomic::{AtomicU64, Ordering};
use std::sync::{Arc, Mutex};
use std::time::{Duration, Instant};

/// SplitMix64: deterministic, seedable, good enough for driving choices.
#[derive(Clone)]
pub struct Rng(pub u64);

impl Rng {
    pub fn new(seed: u64) -> Self {
        Rng(seed.wrapping_mul(0x9E37_79B9_7F4A_7C15).wrapping_add(0x1234_5678_9ABC_DEF1))
    }
    pub fn next(&mut self) -> u64 {
        self.0 = self.0.wrapping_add(0x9E37_79B9_7F4A_7C15);
        let mut z = self.0;
        z = (z ^ (z >> 30)).wrapping_mul(0xBF58_476D_1CE4_E5B9);
        z = (z ^ (z >> 27)).wrapping_mul(0x94D0_49BB_1331_11EB);
        z ^ (z >> 31)
    }
    pub fn below(&mut self, n: usize) -> usize {
        if n == 0 {
            0
        } else {
            (self.next() % n as u64) as usize
        }
    }
    pub fn chance(&mut self, num: u64, den: u64) -> bool {
        self.next() % den < num
    }
    pub fn pick<'a, T>(&mut self, xs: &'a [T]) -> Option<&'a T> {
        if xs.is_empty() {
            None
        } else {
            Some(&xs[self.below(xs.len())])
        }
    }
    pub fn bytes(&mut self, n: usize) -> Vec<u8> {
        (0..n).map(|_| (self.next() & 0xff) as u8).collect()
    }
}

/// Renames 16-hex-digit fingerprints into small integers in order of first
/// appearance (what TLC sees). One renamer per history.
#[derive(Default)]
pub struct Renamer {
    map: HashMap<String, u64>,
}

fn is_fp(s: &str) -> bool {
    s.len() == 16 && s.bytes().all(|b| b.is_ascii_hexdigit() && !b.is_ascii_uppercase())
}

impl Renamer {
    pub fn id(&mut self, s: &str) -> u64 {
        let n = self.map.len() as u64 + 1;
        *self.map.entry(s.to_string()).or_insert(n)
    }
    pub fn known(&self, s: &str) -> bool {
        self.map.contains_key(s)
    }
    pub fn rename(&mut self, v: &Value) -> Value {
        match v {
            Value::String(s) if is_fp(s) => json!(self.id(s)),
            Value::Array(a) => Value::Array(a.iter().map(|x| self.rename(x)).collect()),
            Value::Object(o) => {
                let mut m = Map::new();
                for (k, x) in o {
                    m.insert(k.clone(), self.rename(x));
                }
                Value::Object(m)
            }
            other => other.clone(),
        }
    }
}

/// Collects every fingerprint string found in a JSON value.
pub fn collect_fps(v: &Value, out: &mut Vec<String>) {
    match v {
        Value::String(s) if is_fp(s) => out.push(s.clone()),
        Value::Array(a) => a.iter().for_each(|x| collect_fps(x, out)),
        Value::Object(o) => o.values().for_each(|x| collect_fps(x, out)),
        _ => {}
    }
}

pub fn hex(bytes: &[u8]) -> String {
    bytes.iter().map(|b| format!("{b:02x}")).collect()
}

pub fn unhex(s: &str) -> Vec<u8> {
    (0..s.len() / 2)
        .map(|i| u8::from_str_radix(&s[2 * i..2 * i + 2], 16).unwrap_or(0))
        .collect()
}

/// Output sink shared with the watchdog so that a hanging call can still be
/// reported as an event before the process exits.
pub struct Sink {
    pub out: Mutex<Box<dyn Write + Send>>,
    /// JSON text of the op in flight (empty when idle).
    pub inflight: Mutex<String>,
    pub deadline_ms: AtomicU64,
    pub start: Instant,
}

impl Sink {
    pub fn new(out: Box<dyn Write + Send>) -> Arc<Self> {
        Arc::new(Sink {
            out: Mutex::new(out),
            inflight: Mutex::new(String::new()),
            deadline_ms: AtomicU64::new(0),
            start: Instant::now(),
        })
    }
    pub fn line(&self, v: &Value) {
        let mut o = self.out.lock().unwrap();
        let _ = writeln!(o, "{}", v);
    }
    pub fn flush(&self) {
        let _ = self.out.lock().unwrap().flush();
    }
    pub fn enter(&self, what: &Value, budget_ms: u64) {
        *self.inflight.lock().unwrap() = what.to_string();
        let now = self.start.elapsed().as_millis() as u64;
        self.deadline_ms.store(now + budget_ms, Ordering::SeqCst);
    }
    pub fn leave(&self) {
        self.deadline_ms.store(0, Ordering::SeqCst);
        self.inflight.lock().unwrap().clear();
    }
    /// Spawns the watchdog thread: when a call overruns its budget the op in
    /// flight is written with `res = "hang"` and the process exits with 3.
    pub fn spawn_watchdog(self: &Arc<Self>) {
        let me = self.clone();
        std::thread::spawn(move || loop {
            std::thread::sleep(Duration::from_millis(100));
            let d = me.deadline_ms.load(Ordering::SeqCst);
            if d != 0 && (me.start.elapsed().as_millis() as u64) > d {
                let txt = me.inflight.lock().unwrap().clone();
                let mut v: Value = serde_json::from_str(&txt).unwrap_or(json!({}));
                v["k"] = json!("op");
                v["res"] = json!("hang");
                me.line(&v);
                me.flush();
                std::process::exit(3);
            }
        });
    }
}

/// Silences the default panic message (panics of the code under test are data).
pub fn quiet_panics() {
    std::panic::set_hook(Box::new(|_| {}));
}

pub fn arg_val(args: &[String], name: &str) -> Option<String> {
    args.iter()
        .position(|a| a == name)
        .and_then(|i| args.get(i + 1).cloned())
}

pub fn arg_u64(args: &[String], name: &str, default: u64) -> u64 {
    arg_val(args, name)
        .and_then(|s| s.parse().ok())
        .unwrap_or(default)
}

pub fn arg_flag(args: &[String], name: &str) -> bool {
    args.iter().any(|a| a == name)
}
