------------------------------- MODULE PTrace -------------------------------
(***************************************************************************)
(* Trace validation of executions observed on the real cover_crypt library *)
(* against the name-level reference specification CCSpec.                  *)
(*                                                                         *)
(* Input: an ndjson file (environment variable TRACE) written by           *)
(* cc-harness: one record per API call with its arguments, its result,     *)
(* the projection of the touched objects and the decapsulation matrix.     *)
(* The abstract state g advances by the CCSpec rule of each logged call;   *)
(* the property monitors relate the logged observations to g.  Monitors    *)
(* do not stop the run: every failed instance is collected in viol with    *)
(* the properties it belongs to and its cause, and printed at the end      *)
(* (the driver decides VIOLATION / KNOWN-FINDING).                         *)
(***************************************************************************)
EXTENDS CCSpec, Json, IOUtils, Integers

Rec == ndJsonDeserialize(IOEnv.TRACE)

VARIABLES l,        \* next line of the trace
          g,        \* abstract state (CCSpec)
          viol,     \* collected violations
          sync,     \* FALSE after the abstract state could not follow the log
          opened,   \* user handle -> encapsulations it opened at the last observation
          seen,     \* fresh values seen so far (C16)
          vmsk,     \* last logged view of the master key
          ids,      \* uid -> implementation identifier (for the alias cause)
          hist,     \* number of the current history
          stats,    \* counters for the evidence
          disUpd,   \* implementation identifiers of the attributes that were disabled at the last successful update
          done
vars == <<l, g, viol, sync, opened, seen, vmsk, ids, hist, stats, disUpd, done>>

Has(r, f) == f \in DOMAIN r
Get(r, f, dflt) == IF f \in DOMAIN r THEN r[f] ELSE dflt

Stats0 == [events |-> 0, histories |-> 0, mustopen |-> 0, mustnot |-> 0, free |-> 0,
           calls_ok |-> 0, calls_err |-> 0, contract_ok |-> 0, contract_err |-> 0,
           contract_any |-> 0, refresh_keep |-> 0, refresh_nokeep |-> 0, rekeys |-> 0,
           prunes |-> 0, edits |-> 0, roundtrips |-> 0, recaps |-> 0, encaps |-> 0,
           keygens |-> 0, updates |-> 0, failing_unchanged |-> 0, desync |-> 0,
           fresh_values |-> 0, usk_checks |-> 0, stale_pairs |-> 0, removed_pairs |-> 0,
           disabled_encaps |-> 0, after_edit_pairs |-> 0, after_refresh_opens |-> 0]

Init == /\ l = 1
        /\ g = GInit
        /\ viol = {}
        /\ sync = TRUE
        /\ opened = EmptyFn
        /\ seen = {}
        /\ vmsk = [rights |-> <<>>, users |-> <<>>, st |-> <<>>]
        /\ ids = EmptyFn
        /\ hist = 0
        /\ stats = Stats0
        /\ disUpd = {}
        /\ done = FALSE

(***************************************************************************)
(* Abstract step for one logged call: <<verdict, state if it succeeded>>   *)
(***************************************************************************)
Usable(u) == UsableFrom(g, u, Get(opened, u, {}))

Verdict(ev) ==
    CASE ev.op = "add_dim" -> AddDimV(g, ev.d)
      [] ev.op = "del_dim" -> DelDimV(g, ev.d)
      [] ev.op = "add_attr" -> AddAttrV(g, ev.d, ev.n, Get(ev, "after", ""))
      [] ev.op = "del_attr" -> DelAttrV(g, ev.d, ev.n)
      [] ev.op = "rename" -> RenameV(g, ev.d, ev.n, ev.to)
      [] ev.op = "disable" -> DisableV(g, ev.d, ev.n)
      [] ev.op = "update" -> UpdateV(g)
      [] ev.op = "rekey" -> RekeyV(g, ev.pol)
      [] ev.op = "prune" -> PruneV(g, ev.pol)
      [] ev.op = "mpk" -> "ok"
      [] ev.op = "keygen" -> KeyGenV(g, ev.pol)
      [] ev.op = "refresh" -> IF ev.u \in DOMAIN g.usk THEN RefreshV(g, ev.u) ELSE "any"
      [] ev.op \in {"encaps", "header"} -> IF ev.mpk \in DOMAIN g.mpks THEN EncapsV(g, ev.mpk, ev.pol) ELSE "any"
      [] ev.op = "recaps" -> IF ev.mpk \in DOMAIN g.mpks /\ ev.from \in DOMAIN g.enc
                             THEN RecapsV(g, ev.mpk, ev.from) ELSE "any"
      [] OTHER -> "ok"

Apply(ev) ==
    CASE ev.op = "add_dim" -> AddDim(g, ev.d, ev.kind)
      [] ev.op = "del_dim" -> DelDim(g, ev.d)
      [] ev.op = "add_attr" -> AddAttr(g, ev.d, ev.n, ev.hint, Get(ev, "after", ""))
      [] ev.op = "del_attr" -> DelAttr(g, ev.d, ev.n)
      [] ev.op = "rename" -> Rename(g, ev.d, ev.n, ev.to)
      [] ev.op = "disable" -> Disable(g, ev.d, ev.n)
      [] ev.op = "update" -> Update(g)
      [] ev.op = "rekey" -> Rekey(g, ev.pol)
      [] ev.op = "prune" -> Prune(g, ev.pol)
      [] ev.op = "mpk" -> RederiveMpk(g)
      [] ev.op = "keygen" -> KeyGen(g, ev.u, ev.pol)
      [] ev.op = "refresh" -> Refresh(g, ev.u, ev.keep, Usable(ev.u))
      [] ev.op = "clone_usk" -> CloneUsk(g, ev.u, ev.from)
      [] ev.op = "drop_usk" -> DropUsk(g, ev.u)
      [] ev.op = "drop_enc" -> DropEnc(g, ev.e)
      [] ev.op = "encaps" -> Encaps(g, ev.e, ev.mpk, ev.pol)
      [] ev.op = "recaps" -> Recaps(g, ev.e, ev.mpk, ev.from)
      [] ev.op = "save_msk" -> SaveMsk(g, ev.slot)
      [] ev.op = "restore_msk" -> RestoreMsk(g, ev.slot)
      [] OTHER -> g

\* Can the abstract state follow a call that the implementation accepted?
Followable(ev, v) ==
    /\ v # "err"
    /\ ev.op \in {"refresh", "clone_usk"} => Get(ev, IF ev.op = "refresh" THEN "u" ELSE "from", "") \in DOMAIN g.usk
    /\ ev.op \in {"encaps", "recaps", "header"} => ev.mpk \in DOMAIN g.mpks
    /\ ev.op = "recaps" => ev.from \in DOMAIN g.enc
    /\ ev.op = "restore_msk" => ev.slot \in DOMAIN g.saved
    /\ ev.op \in {"rekey", "prune", "keygen"} => (UserPolWellFormed(ev.pol) /\ UserPolV(g, ev.pol))

(***************************************************************************)
(* Monitors.  Each yields a set of violation records                        *)
(*   [p: properties, what, line, hist, cause, ...]                          *)
(***************************************************************************)
Vio(props, what, cause, detail) ==
    [p |-> props, what |-> what, line |-> l, hist |-> hist, cause |-> cause, detail |-> detail]

\* identifiers shared by two different attributes that matter to a (key, encapsulation) pair
UidsOfCombos(C) == UNION C
AliasBetween(A, B) ==
    \E a \in A \cap DOMAIN ids, b \in B \cap DOMAIN ids : a # b /\ ids[a] = ids[b]
AliasCause(g2, u, e) ==
    IF AliasBetween(UidsOfCombos(g2.usk[u].grant0) \cup UNION {x.c : x \in g2.enc[e].tgx}, DOMAIN ids)
    THEN "alias" ELSE "none"

CompletenessProps(g2, u, e) ==
    (IF g2.enc[e].recaps THEN {"C18"} ELSE {})
    \cup (IF g2.usk[u].refreshed THEN {"C04"} ELSE {})
    \cup (IF g2.edited THEN {"C03"} ELSE {})
    \* C01: the key's policy covers a conjunction of the encryption policy and the key is up to date for it
    \* (that is what `must` says), so it has to open -- whether it is as generated or was refreshed since
    \* (a re-encapsulation has no encryption policy: C18 only)
    \cup (IF ~g2.enc[e].recaps THEN {"C01"} ELSE {})

SoundnessProps(g2, u, e) ==
    LET rs == Reasons(g2, u, e)
    IN (IF g2.enc[e].recaps THEN {"C18"} ELSE {})
       \cup (IF "removed" \in rs THEN {"C05"}
             ELSE IF rs \cap {"nokeep", "stale", "old"} # {} THEN {"C04"}
             \* not granted at all: C02 whatever the history, and C03 when the structure was edited
             ELSE IF g2.edited THEN {"C02", "C03"} ELSE {"C02"})

OpensViol(g2, ev) ==
    LET rows == Get(ev, "opens", <<>>)
        judged == {i \in 1..Len(rows) : rows[i].u \in DOMAIN g2.usk /\ rows[i].e \in DOMAIN g2.enc}
    IN UNION {
         LET u == rows[i].u
             e == rows[i].e
             r == rows[i].r
         IN (IF r \in {"diff"}
             THEN {Vio({"C02", "C07"}, "decapsulation returned a different secret", "none", <<u, e>>)}
             ELSE {})
            \cup
            (IF r \in {"err", "panic"}
             THEN {Vio({"C09"} \cup (IF MustOpen(g2, u, e) THEN {"C01"} ELSE {}),
                       "decapsulation failed instead of returning a verdict", r, <<u, e>>)}
             ELSE {})
            \cup
            (IF MustOpen(g2, u, e) /\ r = "none"
             THEN {Vio(CompletenessProps(g2, u, e), "authorised key does not open", AliasCause(g2, u, e),
                       <<u, e, g2.usk[u].must, g2.enc[e].tg>>)}
             ELSE {})
            \cup
            (IF MustNotOpen(g2, u, e) /\ r = "same"
             THEN {Vio(SoundnessProps(g2, u, e), "key opens an encapsulation it must not open",
                       AliasCause(g2, u, e), <<u, e, Reasons(g2, u, e), g2.usk[u].may, g2.enc[e].tgx>>)}
             ELSE {})
         : i \in judged }

\* attributes an operation's policy talks about (for the alias cause)
OpUids(ev) ==
    CASE ev.op \in {"rekey", "prune", "keygen"} ->
           IF UserPolWellFormed(ev.pol) /\ UserPolV(g, ev.pol)
           THEN UNION GrantCombos(g.st, g.attrs, ev.pol) ELSE {}
      [] ev.op \in {"encaps", "header"} ->
           \* (also for clauses naming two attributes of one dimension: an aliased identifier can make them look like a right)
           IF ev.mpk \in DOMAIN g.mpks /\ \A i \in 1..Len(ev.pol) : AtomsResolve(g.mpks[ev.mpk].st, g.mpks[ev.mpk].attrs, ev.pol[i])
           THEN UNION {ClauseCombo(g.mpks[ev.mpk].st, g.mpks[ev.mpk].attrs, ev.pol[i]) : i \in 1..Len(ev.pol)}
           ELSE {}
      [] ev.op = "update" -> LiveUids(g.st)
      [] ev.op = "recaps" ->
           IF ev.from \in DOMAIN g.enc THEN UNION {x.c : x \in g.enc[ev.from].tgx} ELSE {}
      [] OTHER -> {}
\* (a re-encapsulation opens with EVERY right of the master key -- full_decaps -- and its source may itself be
\*  a re-encapsulation made under an older public key: any identifier shared by two attributes of the history
\*  can make it succeed or fail against the name-level verdict, as for RecapsViol and the recaps flavour)
HistoryAlias == \E a, b \in DOMAIN ids : a # b /\ ids[a] = ids[b] /\ ids[a] >= 0
OpCause(ev, dflt) == IF AliasBetween(OpUids(ev), DOMAIN ids) \/ (ev.op = "recaps" /\ HistoryAlias) THEN "alias" ELSE dflt

\* C09 contract and C06 (publishing a disabled right), C10, C18 details
ContractViol(ev, v) ==
    LET res == ev.res
        bad == res \in {"panic", "hang"}
        mism == (v = "ok" /\ res # "ok") \/ (v = "err" /\ res = "ok")
        disabledTarget ==
            /\ ev.op \in {"encaps", "header"} /\ ev.mpk \in DOMAIN g.mpks
            /\ LET m == g.mpks[ev.mpk]
               IN /\ EncPolValid(m.st, m.attrs, ev.pol)
                  /\ \E i \in 1..Len(ev.pol) :
                        LET c == ClauseCombo(m.st, m.attrs, ev.pol[i])
                        IN c \notin DOMAIN m.keys /\ DisabledOf(m.attrs, c)
        props == {"C09"} \cup (IF v = "err" /\ res = "ok" /\ disabledTarget THEN {"C06"} ELSE {})
                         \cup (IF ev.op = "recaps" THEN {"C18"} ELSE {})
                         \cup (IF ev.op = "refresh" /\ v = "err" /\ res = "ok" THEN {"C08", "C17"} ELSE {})
    IN (IF res # "skip" /\ (bad \/ mism)
        THEN {Vio(props, "call result differs from its contract", OpCause(ev, res), <<ev.op, v, res, Get(ev, "errk", "")>>)}
        ELSE {})
       \cup
       (IF res \in {"err", "panic"} /\ Has(ev, "unchanged") /\ ~ev.unchanged
        THEN {Vio({"C10"}, "failed call modified a key", res, <<ev.op, Get(ev, "errk", "")>>)}
        ELSE {})

RecapsViol(g2, ev) ==
    IF ev.op = "recaps" /\ ev.res = "ok" /\ ev.e \in DOMAIN g2.enc
    THEN (IF Get(ev, "same_secret", FALSE)
          THEN {Vio({"C18", "C16"}, "re-encapsulation reused the old secret", "none", <<ev.e>>)} ELSE {})
         \cup
         (IF Has(ev, "encv") /\ ~(Cardinality(g2.enc[ev.e].tg) <= ev.encv.n /\ ev.encv.n <= Cardinality(g2.enc[ev.e].tgx))
          \* (full_decaps walks every right of the master key: any identifier shared by two attributes of
          \*  this history can add or merge targets -- finding F-ALIAS)
          THEN {Vio({"C18"}, "re-encapsulation has a wrong number of targets",
                    IF \E a, b \in DOMAIN ids : a # b /\ ids[a] = ids[b] /\ ids[a] >= 0 THEN "alias" ELSE "none",
                    <<ev.e, ev.encv.n, g2.enc[ev.e].tg, g2.enc[ev.e].tgx>>)} ELSE {})
    ELSE {}

\* C13 round trips
RtAlso(ev) == IF ev.obj \in {"msk", "usk"} THEN {"C17"} ELSE {}
RoundTripViol(ev) ==
    IF ev.op = "roundtrip" /\ ev.res # "skip"
    \* (C17: registrations and identifiers "survive serialization" -- they live in master keys and user keys)
    THEN IF ev.res # "ok"
         THEN {Vio({"C13"} \cup RtAlso(ev), "round trip failed", ev.res, <<ev.obj, Get(ev, "errk", "")>>)}
         ELSE IF ~(ev.rt.len_ok /\ ev.rt.write_ok /\ ev.rt.eq_ok /\ ev.rt.relen_ok)
              THEN {Vio({"C13"} \cup RtAlso(ev), "round trip not faithful", "none", <<ev.obj, ev.rt>>)}
              ELSE {}
    ELSE {}

\* encrypted headers: serialization (C13) and agreement of header decryption with decapsulation (C12)
HeaderViol(ev) ==
    IF ev.op = "header" /\ ev.res = "ok" /\ Has(ev, "hdr")
    THEN (IF ~ev.hdr.rt_ok THEN {Vio({"C13"}, "encrypted / cleartext header round trip not faithful", "none", <<ev.hdr>>)} ELSE {})
         \cup
         (IF ~ev.hdr.consistent
          THEN {Vio({"C12"}, "header decryption disagrees with decapsulation, or returns another secret / other metadata", "none", <<ev.hdr>>)}
          ELSE {})
    ELSE {}

\* C16 freshness of every value created by a call
FreshViol(ev) ==
    LET f == Get(ev, "fresh", <<>>)
    IN IF \E i \in 1..Len(f) : f[i] \in seen \/ \E j \in 1..Len(f) : i # j /\ f[i] = f[j]
       THEN {Vio({"C16"}, "a value that must be fresh was seen before", "none", <<ev.op, f>>)}
       ELSE {}

\* C11 flavours, C17 identifiers, C05 held secrets: on the logged views
ViewMsk(ev) == IF Has(ev, "msk") THEN ev.msk ELSE vmsk
RightChain(m, r) ==
    LET S == {i \in 1..Len(m.rights) : m.rights[i].r = r}
    IN IF S = {} THEN <<>> ELSE m.rights[CHOOSE i \in S : TRUE].ch
ChainSecrets(ch) == {ch[i].s : i \in 1..Len(ch)}

\* hint of a right computed from the identifiers of the logged structure, when unambiguous
ViewAttrs(m) == UNION {{m.st[i].attrs[j] : j \in 1..Len(m.st[i].attrs)} : i \in 1..Len(m.st)}
RightHint(m, r) ==
    LET A == ViewAttrs(m)
        known == \A i \in 1..Len(r) : Cardinality({a \in A : a.id = r[i]}) = 1
    IN IF known THEN (IF \E i \in 1..Len(r) : \E a \in A : a.id = r[i] /\ a.h THEN "hyb" ELSE "classic")
       ELSE "unknown"

\* C06 directly on the logged views (independent of the abstract state): no public key produced at or
\* after an update publishes a right that involves an attribute which was disabled at the last update
DisabledIds(m) == {a.id : a \in {x \in ViewAttrs(m) : ~x.a}}
SharedIds(m) == {a.id : a \in {x \in ViewAttrs(m) : \E y \in ViewAttrs(m) : y # x /\ y.id = x.id}}
DisUpdAfter(ev) == IF ev.op = "update" /\ ev.res = "ok" /\ Has(ev, "mpkv") THEN DisabledIds(ev.mpkv) ELSE disUpd
\* identifier carried by two different attributes over the history (the F-ALIAS cause, on identifiers)
AliasedId(i) == Cardinality({u \in DOMAIN ids : ids[u] = i}) > 1
RightCause(r) == IF \E j \in 1..Len(r) : AliasedId(r[j]) THEN "alias" ELSE "none"
PublishedDisabledViol(ev) ==
    IF Has(ev, "mpkv") /\ ev.res = "ok" /\ ev.op \in {"update", "rekey", "prune", "mpk"}
    THEN LET dis == DisUpdAfter(ev) \cap DisabledIds(ev.mpkv)
             hits == {i \in 1..Len(ev.mpkv.keys) : \E j \in 1..Len(ev.mpkv.keys[i].r) : ev.mpkv.keys[i].r[j] \in dis}
         IN IF hits # {}
            THEN {Vio({"C06"}, "a public key publishes a right involving an attribute disabled before the last update",
                      \* (shared now, or shared earlier in the history: the other attribute may have been deleted since the update)
                      IF \E i \in hits : \E j \in 1..Len(ev.mpkv.keys[i].r) :
                             ev.mpkv.keys[i].r[j] \in SharedIds(ev.mpkv) \/ AliasedId(ev.mpkv.keys[i].r[j]) THEN "alias" ELSE "none",
                      <<ev.op, {ev.mpkv.keys[i].r : i \in hits}>>)}
            ELSE {}
    ELSE {}

\* C04 / C06 on the logged views: what a public key publishes for a right is the NEWEST secret of that right
\* in the master key (the public key follows every rotation), never an older one
PublishedNotNewestViol(ev, m) ==
    IF Has(ev, "mpkv") /\ ev.res = "ok" /\ ev.op \in {"update", "rekey", "prune", "mpk"}
    THEN LET older == {i \in 1..Len(ev.mpkv.keys) :
                        \E j \in 1..Len(m.rights) :
                            /\ m.rights[j].r = ev.mpkv.keys[i].r
                            /\ m.rights[j].ch[1].p # ev.mpkv.keys[i].p}
         IN IF older # {}
            THEN {Vio({"C04", "C06"}, "a public key publishes a secret that is not the newest one of its right", "none",
                      <<ev.op, {ev.mpkv.keys[i].r : i \in older}>>)}
            ELSE {}
    ELSE {}

\* C05 / C03 on the logged views: after a successful update the master key holds no right naming an
\* identifier that no attribute of its structure carries (rights of deleted attributes are gone)
StaleRightsViol(ev) ==
    IF ev.op = "update" /\ ev.res = "ok" /\ Has(ev, "msk")
    THEN LET live == {a.id : a \in ViewAttrs(ev.msk)}
             stale == {i \in 1..Len(ev.msk.rights) : \E j \in 1..Len(ev.msk.rights[i].r) : ev.msk.rights[i].r[j] \notin live}
         IN IF stale # {}
            THEN {Vio({"C05", "C03"}, "after an update the master key still holds rights of deleted attributes", "none",
                      <<{ev.msk.rights[i].r : i \in stale}>>)}
            ELSE {}
    ELSE {}


FlavourViol(g2, ev) ==
    LET m == ViewMsk(ev)
    \* (the master key is logged only when it changed: an update that wrongly leaves it as it was is judged on
    \*  the last logged view, which is the current one)
    IN (IF ev.res = "ok" /\ ev.op = "update"
        THEN UNION {
               LET rr == m.rights[i]
                   hint == RightHint(m, rr.r)
               IN IF hint # "unknown" /\ \E j \in 1..Len(rr.ch) : j = 1 /\ rr.ch[j].h # (hint = "hyb")
                  \* (an identifier taken over from a deleted attribute explains a MISSING hybridisation -- the secret
                  \*  predates the new attribute; ML-KEM material on a right whose attributes are all classic is never excused)
                  THEN {Vio({"C11"}, "master secret flavour differs from the hints of its right",
                            IF hint = "hyb" THEN RightCause(rr.r) ELSE "none", <<rr.r, hint>>)}
                  ELSE {}
               : i \in 1..Len(m.rights)}
        ELSE {})
       \cup
       (IF Has(ev, "msk")
        THEN UNION {
               LET rr == m.rights[i]
               IN IF \E j \in 1..Len(rr.ch) : rr.ch[j].h # rr.ch[1].h /\ ev.op \in {"rekey", "roundtrip", "restore_msk"}
                  THEN {Vio({"C11"}, "secrets of one right have different flavours", RightCause(rr.r), <<rr.r>>)}
                  ELSE {}
               : i \in 1..Len(m.rights)}
        ELSE {})
       \cup
       (IF ev.op \in {"encaps", "recaps"} /\ ev.res = "ok" /\ Has(ev, "encv") /\ ev.e \in DOMAIN g2.enc
           /\ g2.enc[ev.e].tg # {} /\ ev.encv.h # g2.enc[ev.e].h
        THEN {Vio({"C11"}, "encapsulation flavour differs from the hints of its targets",
                  \* (a re-encapsulation walks every right of the master key: any shared identifier of the history matters)
                  IF AliasBetween(UNION {x.c : x \in g2.enc[ev.e].tgx}, DOMAIN ids)
                     \/ (ev.op = "recaps" /\ \E a, b \in DOMAIN ids : a # b /\ ids[a] = ids[b] /\ ids[a] >= 0)
                  THEN "alias" ELSE "none",
                  <<ev.e, ev.encv.h, g2.enc[ev.e].h>>)}
        ELSE {})
       \cup
       (IF Has(ev, "uskv") /\ ev.res = "ok" /\ ev.op \in {"keygen", "refresh", "roundtrip"}
        THEN UNION {
               LET uc == ev.uskv.ch[i]
                   mc == RightChain(m, uc.r)
               IN IF mc # <<>> /\ \E j \in 1..Len(uc.c) : uc.c[j].h # mc[1].h
                  THEN {Vio({"C11"}, "user secret flavour differs from the master key's", RightCause(uc.r), <<uc.r>>)}
                  ELSE {}
               : i \in 1..Len(ev.uskv.ch)}
        ELSE {})

HeldViol(ev) ==
    LET m == ViewMsk(ev)
    IN IF ev.op = "refresh" /\ ev.res = "ok" /\ Has(ev, "uskv")
       THEN UNION {
              LET uc == ev.uskv.ch[i]
                  mc == RightChain(m, uc.r)
                  held == {uc.c[j].s : j \in 1..Len(uc.c)}
              IN IF ~(held \subseteq ChainSecrets(mc))
                 THEN {Vio({"C05"}, "refreshed key still holds a secret the master key no longer has",
                           IF mc = <<>> THEN "right-gone" ELSE "secret-gone", <<ev.u, uc.r, held \ ChainSecrets(mc)>>)}
                 ELSE IF ~ev.keep /\ (Len(uc.c) # 1 \/ (mc # <<>> /\ uc.c[1].s # mc[1].s))
                 THEN {Vio({"C04"}, "refresh without keeping old secrets did not leave exactly the newest secret",
                           "none", <<ev.u, uc.r>>)}
                 ELSE {}
              : i \in 1..Len(ev.uskv.ch)}
       ELSE {}

IdViol(ev) ==
    LET m == ViewMsk(ev)
    IN IF Has(ev, "chk") /\ Has(ev, "uskv") /\ ev.res = "ok" /\ ev.op \in {"keygen", "refresh"}
       THEN (IF ~(ev.chk.known /\ ev.chk.rel /\ ev.chk.ps /\ ev.chk.sig)
             THEN {Vio({"C17"}, "issued key is not registered / breaks the tracing relation / wrong tracers / bad signature",
                       "none", <<ev.u, ev.chk>>)} ELSE {})
            \cup
            (IF ~(\E i \in 1..Len(m.users) : m.users[i] = ev.uskv.id)
             THEN {Vio({"C17"}, "identifier of an issued key is not recorded in the master key", "none", <<ev.u>>)}
             ELSE {})
       ELSE {}

\* Conformance of the implementation-shaped model (Covercrypt.tla): behaviours generated by TLC
\* carry the result and the decapsulation matrix the model predicts.  A difference is MODEL DRIFT
\* (the code no longer behaves like the model), never a property violation.
DriftViol(ev) ==
    IF Has(ev, "model_res")
    THEN LET rows == Get(ev, "opens", <<>>)
             obsSame == {<<rows[i].u, rows[i].e>> : i \in {j \in 1..Len(rows) : rows[j].r = "same" /\ ~rows[j].p}}
             model == {<<ev.model_opens[i][1], ev.model_opens[i][2]>> : i \in 1..Len(ev.model_opens)}
             r == IF ev.res = "ok" THEN "ok" ELSE "err"
         IN (IF r # ev.model_res
             THEN {Vio({"DRIFT"}, "model predicted another result", "drift", <<ev.op, ev.model_res, ev.res>>)} ELSE {})
            \cup
            (IF obsSame # model
             THEN {Vio({"DRIFT"}, "model predicted another decapsulation matrix", "drift", <<ev.op, model, obsSame>>)} ELSE {})
            \cup
            (IF Has(ev, "model_shape") /\ Has(ev, "shape") /\ ev.model_shape.msk # ev.shape.msk
             THEN {Vio({"DRIFT"}, "model predicted other chain lengths / flags / flavours of the master key", "drift",
                       <<ev.op, ev.model_shape.msk, ev.shape.msk>>)} ELSE {})
            \cup
            (IF Has(ev, "model_shape") /\ Has(ev, "shape") /\ Has(ev.model_shape, "usk") /\ Has(ev.shape, "usk")
                /\ ev.model_shape.usk # ev.shape.usk
             THEN {Vio({"DRIFT"}, "model predicted other chain lengths of the user key", "drift",
                       <<ev.op, ev.model_shape.usk, ev.shape.usk>>)} ELSE {})
    ELSE {}

\* implementation identifiers of the attributes the abstract state knows
IdsFrom(g2, m) ==
    [u \in DOMAIN g2.attrs |->
        LET S == {a \in ViewAttrs(m) : a.n = g2.attrs[u].n /\ u \in LiveUids(g2.st)
                                       /\ \E i \in 1..Len(m.st) : m.st[i].d = g2.attrs[u].d /\ a \in Range(m.st[i].attrs)}
        IN IF S # {} THEN (CHOOSE a \in S : TRUE).id
           ELSE IF u \in DOMAIN ids THEN ids[u] ELSE -1]

(***************************************************************************)
(* Next-state relation: consume one line                                   *)
(***************************************************************************)
Bump(s, f, n) == [s EXCEPT ![f] = @ + n]

StatStep(g2, ev, v) ==
    LET rows == Get(ev, "opens", <<>>)
        J == {i \in 1..Len(rows) : rows[i].u \in DOMAIN g2.usk /\ rows[i].e \in DOMAIN g2.enc}
        mo == Cardinality({i \in J : MustOpen(g2, rows[i].u, rows[i].e)})
        mn == Cardinality({i \in J : MustNotOpen(g2, rows[i].u, rows[i].e)})
        st == Cardinality({i \in J : MustNotOpen(g2, rows[i].u, rows[i].e) /\ "stale" \in Reasons(g2, rows[i].u, rows[i].e)})
        rm == Cardinality({i \in J : MustNotOpen(g2, rows[i].u, rows[i].e) /\ "removed" \in Reasons(g2, rows[i].u, rows[i].e)})
        ar == Cardinality({i \in J : MustOpen(g2, rows[i].u, rows[i].e) /\ g2.usk[rows[i].u].refreshed})
        s1 == [stats EXCEPT !.events = @ + 1,
                            !.mustopen = @ + mo, !.mustnot = @ + mn, !.free = @ + (Cardinality(J) - mo - mn),
                            !.stale_pairs = @ + st, !.removed_pairs = @ + rm,
                            !.after_refresh_opens = @ + ar,
                            !.after_edit_pairs = @ + (IF g2.edited THEN mo + mn ELSE 0),
                            !.calls_ok = @ + (IF ev.res = "ok" THEN 1 ELSE 0),
                            !.calls_err = @ + (IF ev.res \in {"err", "panic", "hang"} THEN 1 ELSE 0),
                            !.contract_ok = @ + (IF v = "ok" THEN 1 ELSE 0),
                            !.contract_err = @ + (IF v = "err" THEN 1 ELSE 0),
                            !.contract_any = @ + (IF v = "any" THEN 1 ELSE 0),
                            !.fresh_values = @ + Len(Get(ev, "fresh", <<>>)),
                            !.usk_checks = @ + (IF Has(ev, "chk") THEN 1 ELSE 0),
                            !.failing_unchanged = @ + (IF Has(ev, "unchanged") THEN 1 ELSE 0)]
        key == CASE ev.op = "refresh" /\ ev.res = "ok" -> IF ev.keep THEN "refresh_keep" ELSE "refresh_nokeep"
                 [] ev.op = "rekey" /\ ev.res = "ok" -> "rekeys"
                 [] ev.op = "prune" /\ ev.res = "ok" -> "prunes"
                 [] ev.op = "update" /\ ev.res = "ok" -> "updates"
                 [] ev.op = "keygen" /\ ev.res = "ok" -> "keygens"
                 [] ev.op = "encaps" /\ ev.res = "ok" -> "encaps"
                 [] ev.op = "encaps" /\ ev.res = "err" /\ v = "err" -> "disabled_encaps"
                 [] ev.op = "recaps" /\ ev.res = "ok" -> "recaps"
                 [] ev.op \in {"roundtrip", "header"} /\ ev.res = "ok" -> "roundtrips"
                 [] ev.op \in {"add_dim", "del_dim", "add_attr", "del_attr", "rename", "disable"} /\ ev.res = "ok" -> "edits"
                 [] OTHER -> "events"
    IN IF key = "events" THEN s1 ELSE Bump(s1, key, 1)

OpenedFrom(ev) ==
    LET rows == ev.opens
        U == {rows[i].u : i \in 1..Len(rows)}
    IN [u \in U |-> {rows[i].e : i \in {j \in 1..Len(rows) : rows[j].u = u /\ rows[j].r = "same"}}]

Reset(ev) ==
    /\ PrintT(<<"PTRACE-HIST", hist, ToJson(stats)>>)
    /\ g' = GInit
    /\ sync' = TRUE
    /\ opened' = EmptyFn
    /\ seen' = {}
    /\ vmsk' = ev.msk
    /\ ids' = EmptyFn
    /\ hist' = Get(ev, "hist", hist + 1)
    /\ stats' = Bump(stats, "histories", 1)
    /\ disUpd' = {}
    /\ viol' = viol

Call(ev) ==
    LET v == Verdict(ev)
        follow == ev.res = "ok" /\ Followable(ev, v)
        lostSync == ev.res = "ok" /\ ~Followable(ev, v) /\ ev.op \notin {"roundtrip"}
        g2 == IF follow THEN Apply(ev) ELSE g
        g3 == g2
        m == ViewMsk(ev)
        newviol == ContractViol(ev, v) \cup RoundTripViol(ev) \cup FreshViol(ev) \cup DriftViol(ev) \cup HeaderViol(ev) \cup PublishedDisabledViol(ev) \cup StaleRightsViol(ev)
                   \cup PublishedNotNewestViol(ev, m)
                   \cup (IF lostSync THEN {} ELSE
                           OpensViol(g3, ev) \cup RecapsViol(g3, ev) \cup FlavourViol(g3, ev)
                           \cup HeldViol(ev) \cup IdViol(ev))
    IN /\ g' = g3
       /\ IF GhostWF(g3) THEN TRUE ELSE PrintT(<<"PTRACE-GHOST-INCONSISTENT", l>>)
       /\ sync' = ~lostSync
       /\ viol' = viol \cup {x \in newviol : ~\E y \in viol : y.hist = x.hist /\ y.what = x.what /\ y.detail = x.detail}
       /\ opened' = IF Has(ev, "opens") THEN OpenedFrom(ev) ELSE opened
       /\ seen' = seen \cup Range(Get(ev, "fresh", <<>>))
       /\ vmsk' = m
       /\ ids' = IdsFrom(g3, m)
       /\ disUpd' = DisUpdAfter(ev)
       /\ hist' = hist
       /\ stats' = IF lostSync THEN Bump(Bump(stats, "desync", 1), "events", 1)
                   ELSE StatStep(g3, ev, v)

Skip(ev) ==
    /\ UNCHANGED <<g, sync, opened, seen, vmsk, ids, hist>>
    \* monitors that only need the logged views keep running when the abstract state lost track
    /\ disUpd' = IF ev.res = "skip" THEN disUpd ELSE DisUpdAfter(ev)
    /\ viol' = viol \cup (IF ev.res = "skip" THEN {} ELSE
                            {x \in PublishedDisabledViol(ev) \cup StaleRightsViol(ev) \cup RoundTripViol(ev) \cup FreshViol(ev) :
                                ~\E y \in viol : y.hist = x.hist /\ y.what = x.what /\ y.detail = x.detail})
    /\ stats' = Bump(stats, "events", 1)

Next ==
    \/ /\ l <= Len(Rec)
       /\ l' = l + 1
       /\ done' = FALSE
       /\ LET ev == Rec[l]
          IN IF ev.k = "reset" THEN Reset(ev)
             ELSE IF sync /\ ev.res # "skip" THEN Call(ev)
             ELSE Skip(ev)
    \/ /\ l = Len(Rec) + 1
       /\ ~done
       /\ done' = TRUE
       /\ PrintT(<<"PTRACE-HIST", hist, ToJson(stats)>>)
       /\ PrintT(<<"PTRACE-STATS", ToJson(stats)>>)
       /\ \A x \in viol : PrintT(<<"PTRACE-VIOL", ToJson(x)>>)
       /\ PrintT(<<"PTRACE-DONE", l - 1, Cardinality(viol)>>)
       /\ UNCHANGED <<l, g, viol, sync, opened, seen, vmsk, ids, hist, stats, disUpd>>

Spec == Init /\ [][Next]_vars

\* the whole trace must be consumed (binding: a malformed line stops the run)
Consumed == TLCGet("stats").diameter >= Len(Rec) + 2

=============================================================================
