----------------------------- MODULE Covercrypt -----------------------------
(***************************************************************************)
(* Implementation-shaped model of the cover_crypt life cycle ("Layer M"),  *)
(* with the name-level reference specification CCSpec running next to it   *)
(* as ghost state g ("Layer P").                                           *)
(*                                                                         *)
(* One action per public API call, written the way the code is written:    *)
(*  - attributes carry integer identifiers allocated as                    *)
(*    AccessStructure::add_attribute allocates them (number of live        *)
(*    attributes, constant IdFromCount) -- or from a counter, to explore   *)
(*    the design without that defect;                                      *)
(*  - a right is the SORTED TUPLE of the identifiers of a selection        *)
(*    (Right::from_point sorts, it does not deduplicate);                  *)
(*  - the master key maps rights to newest-first chains of                 *)
(*    [sid, h (hybridised), a (activated)];                                *)
(*  - user policies are expanded by the code's algorithm (semantic space,  *)
(*    restriction, complementary points), NOT by the cover relation;       *)
(*  - update / rekey / refresh follow primitives.rs step by step,          *)
(*    including where they validate and what they do on error.             *)
(* Secrets are opaque tokens: sid from a counter.  An encapsulation is     *)
(* the set of [right, sid] it was made under plus its flavour;             *)
(* decapsulation succeeds iff the key holds one of those secrets (with     *)
(* ML-KEM material if the encapsulation is hybridised).                    *)
(*                                                                         *)
(* lnk relates the model's secrets to the reference specification's        *)
(* tokens (a relation, because identifier aliasing can map two name-level  *)
(* rights onto one implementation right).                                  *)
(***************************************************************************)
EXTENDS CCSpec, ChainOps

CONSTANTS Dims,          \* dimension names
          Kind,          \* [Dims -> {"H","A"}]
          Names,         \* attribute name pool
          Users,         \* user key handles
          EncIds,        \* encapsulation handles
          Pols,          \* policy catalogue (sequences of clauses)
          Hints,         \* subset of BOOLEAN allowed as hints
          MaxAttrs,      \* bound on live attributes
          MaxUid,        \* bound on attributes ever created
          MaxSid,        \* bound on secrets ever created
          MaxMpk,        \* bound on public keys ever published
          IdFromCount,   \* TRUE: identifier := number of live attributes (as coded)
          Ops,           \* enabled action names (after the scripted prefix)
          Script,        \* scripted prefix: sequence of op records executed first
          Mut            \* set of named deviations (defects repaired in the code) re-enabled for self-tests

VARIABLES st, msk, nsid, nid, mpks, usk, users, nuid, encs, res, lnk, idu, g, bad, last, pc, obs, saved
vars == <<st, msk, nsid, nid, mpks, usk, users, nuid, encs, res, lnk, idu, g, bad, last, pc, obs, saved>>
\* what distinguishes states: not the result / description of the last call
view == <<st, msk, nsid, nid, mpks, usk, users, nuid, encs, lnk, idu, g, bad, pc, saved>>
On(a) == pc <= Len(Script) \/ a \in Ops

(***************************************************************************)
(* Helpers on the implementation state                                     *)
(***************************************************************************)
SortIds(s) == SortSeq(s, LAMBDA a, b : a < b)
AttrsOf(S, d) == S[d].attrs
Find(s, n) == IF \E i \in 1..Len(s) : s[i].n = n THEN CHOOSE i \in 1..Len(s) : s[i].n = n ELSE 0
LiveCount(S) == LET RECURSIVE Sum(_)
                    Sum(D) == IF D = {} THEN 0
                              ELSE LET d == CHOOSE x \in D : TRUE IN Len(S[d].attrs) + Sum(D \ {d})
                IN Sum(DOMAIN S)

\* selections: for a family of attribute lists per dimension, choose none or one per dimension
Sels(L) == UNION { { f \in [sub -> UNION {Range(L[d]) : d \in sub}] : \A d \in sub : f[d] \in Range(L[d]) }
                   : sub \in SUBSET DOMAIN L }
SelIds(f) == SeqOfSet(DOMAIN f)
RightOfSel(f) == LET ds == SeqOfSet(DOMAIN f) IN SortIds([i \in 1..Len(ds) |-> f[ds[i]].id])
SelHint(f) == \E d \in DOMAIN f : f[d].h
SelEnabled(f) == \A d \in DOMAIN f : f[d].a

AllLists(S) == [d \in DOMAIN S |-> S[d].attrs]

\* omega(): every right with the (hint, status) candidates of the selections mapping to it
Omega(S) == LET F == Sels(AllLists(S))
            IN [r \in {RightOfSel(f) : f \in F} |-> {[h |-> SelHint(f), a |-> SelEnabled(f)] : f \in {x \in F : RightOfSel(x) = r}}]

\* Dimension::restrict
RestrictDim(S, d, n) == LET s == S[d].attrs
                            i == Find(s, n)
                        IN IF S[d].kind = "H" THEN SubSeq(s, 1, i) ELSE <<s[i]>>

ClauseResolves(S, cl) == \A i \in 1..Len(cl) : cl[i][1] \in DOMAIN S /\ Find(S[cl[i][1]].attrs, cl[i][2]) # 0

\* generate_semantic_space: a HashMap collected from the clause, later atoms of a dimension override
SemSpace(S, cl) ==
    LET ds == {cl[i][1] : i \in 1..Len(cl)}
        lastOf(d) == CHOOSE i \in 1..Len(cl) : cl[i][1] = d /\ \A j \in 1..Len(cl) : cl[j][1] = d => j <= i
    IN [d \in ds |-> RestrictDim(S, d, cl[lastOf(d)][2])]

\* generate_complementary_points
CompSels(S, cl) == LET sem == SemSpace(S, cl)
                       L == [d \in DOMAIN S |-> IF d \in DOMAIN sem THEN sem[d] ELSE S[d].attrs]
                   IN Sels(L)
UskSels(S, pol) == UNION {CompSels(S, pol[k]) : k \in 1..Len(pol)}
UskRights(S, pol) == {RightOfSel(f) : f \in UskSels(S, pol)}
UskPolOk(S, pol) == \A k \in 1..Len(pol) : ClauseResolves(S, pol[k])

\* generate_associated_rights
EncRight(S, cl) == SortIds([i \in 1..Len(cl) |-> S[cl[i][1]].attrs[Find(S[cl[i][1]].attrs, cl[i][2])].id])
EncRights(S, pol) == {EncRight(S, pol[k]) : k \in 1..Len(pol)}

ChainSids(ch) == {ch[i].sid : i \in 1..Len(ch)}
MPublished(m) == {r \in DOMAIN m : m[r][1].a}
MMpk(m, S) == [keys |-> [r \in MPublished(m) |-> [sid |-> m[r][1].sid, h |-> m[r][1].h]], st |-> S]

\* secrets a key holds, with their flavour
\* (deviation "shortest_chain": the revision iterator stopped at the shortest chain, before 0f237c5)
MinLen(u) == IF usk[u].ch = <<>> THEN 0
             ELSE CHOOSE m \in {Len(usk[u].ch[i].c) : i \in 1..Len(usk[u].ch)} :
                      \A i \in 1..Len(usk[u].ch) : m <= Len(usk[u].ch[i].c)
Held(u) == UNION {{usk[u].ch[i].c[j] : j \in 1..(IF "shortest_chain" \in Mut THEN MinLen(u) ELSE Len(usk[u].ch[i].c))}
                  : i \in 1..Len(usk[u].ch)}
Opens(u, e) == \E x \in encs[e].tg : \E s \in Held(u) : s.sid = x.sid /\ (encs[e].h => s.h)
\* the decapsulation matrix the model predicts (what an observer of the real library would see)
ObsOf(uk, en) == {p \in (DOMAIN uk) \X (DOMAIN en) :
                    \E x \in en[p[2]].tg : \E i \in 1..Len(uk[p[1]].ch) : \E j \in 1..Len(uk[p[1]].ch[i].c) :
                        uk[p[1]].ch[i].c[j].sid = x.sid /\ (en[p[2]].h => uk[p[1]].ch[i].c[j].h)}

\* uid-combination of a selection, through the names (reference spec side)
ComboOfSel(gg, f) == {UidOf(gg.st, gg.attrs, d, f[d].n) : d \in DOMAIN f}

(***************************************************************************)
(* Init                                                                    *)
(***************************************************************************)
Init ==
    /\ st = EmptyFn
    /\ msk = (<<>> :> <<[sid |-> 1, h |-> FALSE, a |-> TRUE]>>)
    /\ nsid = 2
    /\ nid = 0
    /\ mpks = <<[keys |-> (<<>> :> [sid |-> 1, h |-> FALSE]), st |-> EmptyFn]>>
    /\ usk = EmptyFn
    /\ users = {}
    /\ nuid = 1
    /\ encs = EmptyFn
    /\ res = "ok"
    /\ lnk = {<<1, 1>>}
    /\ idu = EmptyFn
    /\ g = GInit
    /\ bad = {}
    /\ last = [op |-> "init"]
    /\ pc = 1
    /\ obs = {}
    /\ saved = EmptyFn

(***************************************************************************)
(* Ghost coupling: verdict of the reference spec vs result of the model    *)
(***************************************************************************)
Mismatch(v, r) == (v = "ok" /\ r # "ok") \/ (v = "err" /\ r = "ok")
\* GhostGate: the reference specification follows the model.  TRUE everywhere except in the trace
\* specification MTrace, which keeps validating the MODEL on histories the reference specification
\* cannot follow (two attributes sharing an identifier, finding F-ALIAS): there it is NoAlias, and
\* with the gate closed the ghost state is frozen and never evaluated (TLC passes arguments lazily).
GhostGate == TRUE
Gh(x) == IF GhostGate THEN x ELSE g
Couple(v, r, gnext, tags) ==
    /\ res' = r
    /\ g' = IF GhostGate /\ r = "ok" /\ v # "err" THEN gnext ELSE g
    /\ bad' = IF GhostGate THEN bad \cup (IF Mismatch(v, r) THEN tags ELSE {}) ELSE bad

Unch(vs) == UNCHANGED vs

(***************************************************************************)
(* Structure edits (on the structure held by the master key)               *)
(***************************************************************************)
AddDimK(d, kind) ==
    /\ On("AddDim")
    /\ last' = [op |-> "add_dim", d |-> d, kind |-> kind]
    /\ IF d \in DOMAIN st
       THEN /\ Couple(AddDimV(g, d), "err", g, {"C09"})
            /\ UNCHANGED <<st, msk, nsid, nid, mpks, usk, users, nuid, encs, lnk, idu, saved>>
       ELSE /\ st' = st @@ (d :> [kind |-> kind, attrs |-> <<>>])
            /\ Couple(AddDimV(g, d), "ok", AddDim(g, d, kind), {"C09"})
            /\ UNCHANGED <<msk, nsid, nid, mpks, usk, users, nuid, encs, lnk, idu, saved>>
AddDimA(d) == AddDimK(d, Kind[d])

DelDimA(d) ==
    /\ On("DelDim")
    /\ last' = [op |-> "del_dim", d |-> d]
    /\ IF d \notin DOMAIN st
       THEN /\ Couple(DelDimV(g, d), "err", g, {"C09"})
            /\ UNCHANGED <<st, msk, nsid, nid, mpks, usk, users, nuid, encs, lnk, idu, saved>>
       ELSE /\ st' = Without(st, {d})
            /\ Couple(DelDimV(g, d), "ok", DelDim(g, d), {"C09"})
            /\ UNCHANGED <<msk, nsid, nid, mpks, usk, users, nuid, encs, lnk, idu, saved>>

\* after = "" : no `after` argument
AddAttrA(d, n, h, after) ==
    /\ On("AddAttr")
    /\ last' = [op |-> "add_attr", d |-> d, n |-> n, hint |-> h, after |-> after]
    /\ LET v == AddAttrV(g, d, n, after)
           fails == \/ d \notin DOMAIN st
                    \/ Find(st[d].attrs, n) # 0
                    \/ (st[d].kind = "H" /\ after # "" /\ Find(st[d].attrs, after) = 0)
       IN IF fails
          THEN /\ Couple(v, "err", g, {"C09"})
               /\ UNCHANGED <<st, msk, nsid, nid, mpks, usk, users, nuid, encs, lnk, idu, saved>>
          ELSE LET id == IF IdFromCount THEN LiveCount(st) ELSE nid
                   s == st[d].attrs
                   p == IF st[d].kind = "H" THEN (IF after = "" THEN 1 ELSE Find(s, after) + 1) ELSE Len(s) + 1
                   a == [n |-> n, id |-> id, h |-> h, a |-> TRUE]
               IN /\ st' = [st EXCEPT ![d].attrs = InsertAt(s, p, a)]
                  /\ nid' = nid + 1
                  /\ idu' = IF GhostGate THEN idu @@ (g.nextUid :> id) ELSE idu
                  /\ Couple(v, "ok", AddAttr(g, d, n, h, after), {"C09"})
                  /\ UNCHANGED <<msk, nsid, mpks, usk, users, nuid, encs, lnk, saved>>

DelAttrA(d, n) ==
    /\ On("DelAttr")
    /\ last' = [op |-> "del_attr", d |-> d, n |-> n]
    /\ IF d \notin DOMAIN st \/ Find(st[d].attrs, n) = 0
       THEN /\ Couple(DelAttrV(g, d, n), "err", g, {"C09"})
            /\ UNCHANGED <<st, msk, nsid, nid, mpks, usk, users, nuid, encs, lnk, idu, saved>>
       ELSE /\ st' = [st EXCEPT ![d].attrs = RemoveAt(@, Find(@, n))]
            /\ Couple(DelAttrV(g, d, n), "ok", DelAttr(g, d, n), {"C09"})
            /\ UNCHANGED <<msk, nsid, nid, mpks, usk, users, nuid, encs, lnk, idu, saved>>

RenameA(d, n, to) ==
    /\ On("Rename")
    /\ last' = [op |-> "rename", d |-> d, n |-> n, to |-> to]
    /\ IF d \notin DOMAIN st \/ Find(st[d].attrs, n) = 0 \/ Find(st[d].attrs, to) # 0
       THEN /\ Couple(RenameV(g, d, n, to), "err", g, {"C09"})
            /\ UNCHANGED <<st, msk, nsid, nid, mpks, usk, users, nuid, encs, lnk, idu, saved>>
       ELSE /\ st' = [st EXCEPT ![d].attrs[Find(st[d].attrs, n)].n = to]
            /\ Couple(RenameV(g, d, n, to), "ok", Rename(g, d, n, to), {"C09"})
            /\ UNCHANGED <<msk, nsid, nid, mpks, usk, users, nuid, encs, lnk, idu, saved>>

DisableA(d, n) ==
    /\ On("Disable")
    /\ last' = [op |-> "disable", d |-> d, n |-> n]
    /\ IF d \notin DOMAIN st \/ Find(st[d].attrs, n) = 0
       THEN /\ Couple(DisableV(g, d, n), "err", g, {"C09"})
            /\ UNCHANGED <<st, msk, nsid, nid, mpks, usk, users, nuid, encs, lnk, idu, saved>>
       ELSE /\ st' = [st EXCEPT ![d].attrs[Find(st[d].attrs, n)].a = FALSE]
            /\ Couple(DisableV(g, d, n), "ok", Disable(g, d, n), {"C09"})
            /\ UNCHANGED <<msk, nsid, nid, mpks, usk, users, nuid, encs, lnk, idu, saved>>

(***************************************************************************)
(* update_msk (with its validation before take(), commit 04187ba)          *)
(***************************************************************************)
\* links between the new secrets and the tokens the reference spec creates for the same names
LinkNew(mnew, gnew, rightsOfSel) ==
    {<<mnew[p[1]][1].sid, gnew.msk[p[2]][1].t>> : p \in {q \in rightsOfSel : q[1] \in DOMAIN mnew /\ q[2] \in DOMAIN gnew.msk}}

\* Win(r, C): the candidate that wins for a right reached by several selections (HashMap collect: any may)
UpdateWith(Win(_, _)) ==
    /\ On("Update")
    /\ last' = [op |-> "update"]
    /\ LET om == Omega(st)
           v == UpdateV(g)
       IN   /\ LET pick == [r \in DOMAIN om |-> IF Cardinality(om[r]) > 1 THEN Win(r, om[r]) ELSE CHOOSE x \in om[r] : TRUE]
               IN
               IF \E r \in DOMAIN om : ~pick[r].a /\ r \notin DOMAIN msk
               THEN /\ Couple(v, "err", g, {"C09"})
                    /\ UNCHANGED <<st, msk, nsid, nid, mpks, usk, users, nuid, encs, lnk, idu, saved>>
               ELSE LET new == SeqOfSet(DOMAIN om \ DOMAIN msk)
                        m2 == [r \in DOMAIN om |->
                                 IF r \in DOMAIN msk
                                 THEN [msk[r] EXCEPT ![1].a = pick[r].a, ![1].h = (@ /\ pick[r].h)]
                                 ELSE <<[sid |-> nsid + Pos(new, r) - 1, h |-> pick[r].h, a |-> TRUE]>>]
                        gn == Update(g)
                        pairs == {<<RightOfSel(f), ComboOfSel(g, f)>> : f \in Sels(AllLists(st))}
                        newpairs == {q \in pairs : q[1] \notin DOMAIN msk}
                    IN /\ nsid + Len(new) <= MaxSid + 1
                       /\ Len(mpks) < MaxMpk
                       /\ msk' = m2
                       /\ nsid' = nsid + Len(new)
                       /\ mpks' = Append(mpks, MMpk(m2, st))
                       /\ lnk' = IF GhostGate /\ v # "err" THEN lnk \cup LinkNew(m2, gn, newpairs) ELSE lnk
                       /\ Couple(v, "ok", gn, {"C09", "C10"})
                       /\ UNCHANGED <<st, nid, usk, users, nuid, encs, idu, saved>>

UpdateA ==
    LET om == Omega(st)
        Ambig == {r \in DOMAIN om : Cardinality(om[r]) > 1}
    IN \E amb \in [Ambig -> UNION {om[r] : r \in Ambig}] :
         /\ \A r \in Ambig : amb[r] \in om[r]
         /\ UpdateWith(LAMBDA r, C : amb[r])

(***************************************************************************)
(* rekey (validates all rights first, commit 1093408; keeps the activation *)
(* flag, commit c136dfc)                                                   *)
(***************************************************************************)
RekeyA(pol) ==
    /\ On("Rekey")
    /\ last' = [op |-> "rekey", pol |-> pol]
    /\ LET v == RekeyV(g, pol)
       IN IF ~UskPolOk(st, pol) \/ ~(UskRights(st, pol) \subseteq DOMAIN msk)
          THEN /\ Couple(v, "err", g, {"C09"})
               /\ UNCHANGED <<st, msk, nsid, nid, mpks, usk, users, nuid, encs, lnk, idu, saved>>
          ELSE LET R == SeqOfSet(UskRights(st, pol))
                   m2 == [r \in DOMAIN msk |->
                            IF Pos(R, r) > 0
                            THEN <<[sid |-> nsid + Pos(R, r) - 1, h |-> msk[r][1].h,
                                   a |-> IF "rekey_reactivates" \in Mut THEN TRUE ELSE msk[r][1].a]>> \o msk[r]   \* before c136dfc
                            ELSE msk[r]]
                   gn == Rekey(g, pol)
                   pairs == {<<RightOfSel(f), ComboOfSel(g, f)>> : f \in UskSels(st, pol)}
               IN /\ nsid + Len(R) <= MaxSid + 1
                  /\ Len(mpks) < MaxMpk
                  /\ msk' = m2
                  /\ nsid' = nsid + Len(R)
                  /\ mpks' = Append(mpks, MMpk(m2, st))
                  /\ lnk' = IF GhostGate /\ v = "ok" THEN lnk \cup LinkNew(m2, gn, pairs) ELSE lnk
                  /\ Couple(v, "ok", gn, {"C09"})
                  /\ UNCHANGED <<st, nid, usk, users, nuid, encs, idu, saved>>

PruneA(pol) ==
    /\ On("Prune")
    /\ last' = [op |-> "prune", pol |-> pol]
    /\ LET v == PruneV(g, pol)
       IN IF ~UskPolOk(st, pol)
          THEN /\ Couple(v, "err", g, {"C09"})
               /\ UNCHANGED <<st, msk, nsid, nid, mpks, usk, users, nuid, encs, lnk, idu, saved>>
          ELSE LET R == UskRights(st, pol)
                   m2 == [r \in DOMAIN msk |-> IF r \in R THEN <<msk[r][1]>> ELSE msk[r]]
               IN /\ Len(mpks) < MaxMpk
                  /\ msk' = m2
                  /\ mpks' = Append(mpks, MMpk(m2, st))
                  /\ Couple(v, "ok", Prune(g, pol), {"C09"})
                  /\ UNCHANGED <<st, nsid, nid, usk, users, nuid, encs, lnk, idu, saved>>

(***************************************************************************)
(* usk_keygen / refresh                                                    *)
(***************************************************************************)
KeyGenA(u, pol) ==
    /\ On("KeyGen")
    /\ u \notin DOMAIN usk
    /\ last' = [op |-> "keygen", u |-> u, pol |-> pol]
    /\ LET v == KeyGenV(g, pol)
       IN IF ~UskPolOk(st, pol) \/ ~(UskRights(st, pol) \subseteq DOMAIN msk)
          THEN /\ Couple(v, "err", g, {"C09"})
               /\ UNCHANGED <<st, msk, nsid, nid, mpks, usk, users, nuid, encs, lnk, idu, saved>>
          ELSE LET R == SeqOfSet(UskRights(st, pol))
               IN /\ usk' = usk @@ (u :> [id |-> nuid,
                                          ch |-> [i \in 1..Len(R) |-> [r |-> R[i], c |-> <<[sid |-> msk[R[i]][1].sid, h |-> msk[R[i]][1].h]>>]]])
                  /\ users' = users \cup {nuid}
                  /\ nuid' = nuid + 1
                  /\ Couple(v, "ok", KeyGen(g, u, pol), {"C09"})
                  /\ UNCHANGED <<st, msk, nsid, nid, mpks, encs, lnk, idu, saved>>

\* refresh_coordinate_keys on one chain (after commit c766bd3): the chain arithmetic is ChainOps!RefreshKeepChain,
\* the operator whose inductive invariant ChainInd.tla discharges for all histories of one right
Strip(ch) == [i \in 1..Len(ch) |-> [sid |-> ch[i].sid, h |-> ch[i].h]]
RefreshChain(uc, mc) ==
    LET ms == Strip(mc)
    IN IF "stale_kept" \in Mut /\ PosIn(ms, uc[1]) = 0 THEN ms \o <<uc[1]>>   \* before c766bd3
       ELSE RefreshKeepChain(uc, ms)

\* toks a key can certainly use (through the links), for the keep rule of the reference spec
UsableToks(u) == {p[2] : p \in {q \in lnk : \E s \in Held(u) : s.sid = q[1]}}

RefreshA(u, keep) ==
    /\ On("Refresh")
    /\ u \in DOMAIN usk
    /\ last' = [op |-> "refresh", u |-> u, keep |-> keep]
    /\ LET v == RefreshV(g, u)
       IN IF usk[u].id \notin users
             \/ ("nokeep_fails" \in Mut /\ ~keep /\ \E i \in 1..Len(usk[u].ch) : usk[u].ch[i].r \notin DOMAIN msk)
          THEN /\ Couple(v, "err", g, {"C09", "C17"})
               /\ UNCHANGED <<st, msk, nsid, nid, mpks, usk, users, nuid, encs, lnk, idu, saved>>
          ELSE LET live == SelectSeq(usk[u].ch, LAMBDA c : c.r \in DOMAIN msk)
                   ch2 == [k \in 1..Len(live) |->
                             [r |-> live[k].r,
                              c |-> IF keep THEN RefreshChain(live[k].c, msk[live[k].r])
                                    ELSE <<[sid |-> msk[live[k].r][1].sid, h |-> msk[live[k].r][1].h]>>]]
               IN /\ usk' = [usk EXCEPT ![u].ch = ch2]
                  /\ Couple(v, "ok", Refresh(g, u, keep, UsableToks(u)), {"C09"})
                  /\ UNCHANGED <<st, msk, nsid, nid, mpks, users, nuid, encs, lnk, idu, saved>>

CloneA(u, from) ==
    /\ On("Clone")
    /\ from \in DOMAIN usk /\ u \notin DOMAIN usk
    /\ last' = [op |-> "clone_usk", u |-> u, from |-> from]
    /\ usk' = usk @@ (u :> usk[from])
    /\ g' = Gh(CloneUsk(g, u, from))
    /\ res' = "ok"
    /\ UNCHANGED <<st, msk, nsid, nid, mpks, users, nuid, encs, lnk, idu, bad, saved>>

(***************************************************************************)
(* encaps / recaps                                                         *)
(***************************************************************************)
EncapsA(e, k, pol) ==
    /\ On("Encaps")
    /\ e \notin DOMAIN encs
    /\ k \in 1..Len(mpks)
    /\ last' = [op |-> "encaps", e |-> e, mpk |-> k, pol |-> pol]
    /\ LET S == mpks[k].st
           v == EncapsV(g, k, pol)
           ok == /\ \A i \in 1..Len(pol) : ClauseResolves(S, pol[i])
                 /\ EncRights(S, pol) \subseteq DOMAIN mpks[k].keys
           tags == {"C09"} \cup (IF v = "err" THEN {"C06"} ELSE {})
       IN IF ~ok
          THEN /\ Couple(v, "err", g, tags)
               /\ UNCHANGED <<st, msk, nsid, nid, mpks, usk, users, nuid, encs, lnk, idu, saved>>
          ELSE LET R == EncRights(S, pol)
               IN /\ encs' = encs @@ (e :> [tg |-> {[r |-> r, sid |-> mpks[k].keys[r].sid] : r \in R},
                                            h |-> \A r \in R : mpks[k].keys[r].h])
                  /\ Couple(v, "ok", Encaps(g, e, k, pol), tags)
                  /\ UNCHANGED <<st, msk, nsid, nid, mpks, usk, users, nuid, lnk, idu, saved>>

\* full_decaps: rights having an ACTIVATED secret (any position) that opens the encapsulation
FullDecapsRights(e) ==
    {r \in DOMAIN msk : \E i \in 1..Len(msk[r]) :
        msk[r][i].a /\ \E x \in encs[e].tg : x.sid = msk[r][i].sid /\ (encs[e].h => msk[r][i].h)}

RecapsA(e2, k, e) ==
    /\ On("Recaps")
    /\ e \in DOMAIN encs /\ e2 \notin DOMAIN encs
    /\ k \in 1..Len(mpks)
    /\ last' = [op |-> "recaps", e |-> e2, from |-> e, mpk |-> k]
    /\ LET v == RecapsV(g, k, e)
           R == {r \in FullDecapsRights(e) : r \in DOMAIN mpks[k].keys}    \* commit b50919f
       IN IF R = {} \/ ("recaps_unpublished_fails" \in Mut /\ R # FullDecapsRights(e))
          THEN /\ Couple(v, "err", g, {"C09", "C18"})
               /\ UNCHANGED <<st, msk, nsid, nid, mpks, usk, users, nuid, encs, lnk, idu, saved>>
          ELSE /\ encs' = encs @@ (e2 :> [tg |-> {[r |-> r, sid |-> mpks[k].keys[r].sid] : r \in R},
                                          h |-> \A r \in R : mpks[k].keys[r].h])
               /\ Couple(v, "ok", Recaps(g, e2, k, e), {"C09", "C18"})
               /\ UNCHANGED <<st, msk, nsid, nid, mpks, usk, users, nuid, lnk, idu, saved>>

(***************************************************************************)
(* Serialization round trip of any object: a stutter on the abstract state *)
(* (C13); snapshots of the master key (C17)                                *)
(***************************************************************************)
RoundTripA ==
    /\ On("RoundTrip")
    /\ last' = [op |-> "roundtrip", obj |-> "msk"]
    /\ res' = "ok"
    /\ UNCHANGED <<st, msk, nsid, nid, mpks, usk, users, nuid, encs, lnk, idu, g, bad, saved>>

(***************************************************************************)
(* Snapshot / restore of the serialized master key (one slot): the honest  *)
(* way to meet "valid MAC, identifier unknown to the master key" (C17).    *)
(* The access structure travels with the master key.                       *)
(***************************************************************************)
SaveSlotA(slot) ==
    /\ On("Save")
    /\ last' = [op |-> "save_msk", slot |-> slot]
    /\ saved' = [x \in DOMAIN saved \cup {slot} |-> IF x = slot THEN [st |-> st, msk |-> msk, users |-> users] ELSE saved[x]]
    /\ g' = Gh(SaveMsk(g, slot))
    /\ res' = "ok"
    /\ UNCHANGED <<st, msk, nsid, nid, mpks, usk, users, nuid, encs, lnk, idu, bad>>
SaveA == "s1" \notin DOMAIN saved /\ SaveSlotA("s1")

RestoreSlotA(slot) ==
    /\ On("Restore")
    /\ slot \in DOMAIN saved
    /\ last' = [op |-> "restore_msk", slot |-> slot]
    /\ st' = saved[slot].st
    /\ msk' = saved[slot].msk
    /\ users' = saved[slot].users
    /\ g' = Gh(RestoreMsk(g, slot))
    /\ res' = "ok"
    /\ UNCHANGED <<nsid, nid, mpks, usk, nuid, encs, lnk, idu, bad, saved>>
RestoreA == RestoreSlotA("s1")

\* MasterSecretKey::mpk(): the public key of the master key as it is, with the structure as it is
MpkA ==
    /\ On("Mpk")
    /\ last' = [op |-> "mpk"]
    /\ Len(mpks) < MaxMpk
    /\ mpks' = Append(mpks, MMpk(msk, st))
    /\ g' = Gh(RederiveMpk(g))
    /\ res' = "ok"
    /\ UNCHANGED <<st, msk, nsid, nid, usk, users, nuid, encs, lnk, idu, bad, saved>>

\* the caller forgets an encapsulation (no library call)
DropEncA(e) ==
    /\ On("DropEnc")
    /\ e \in DOMAIN encs
    /\ last' = [op |-> "drop_enc", e |-> e]
    /\ encs' = Without(encs, {e})
    /\ g' = Gh(DropEnc(g, e))
    /\ res' = "ok"
    /\ UNCHANGED <<st, msk, nsid, nid, mpks, usk, users, nuid, lnk, idu, bad, saved>>

DropUskA(u) ==
    /\ On("DropUsk")
    /\ u \in DOMAIN usk
    /\ last' = [op |-> "drop_usk", u |-> u]
    /\ usk' = Without(usk, {u})
    /\ g' = Gh(DropUsk(g, u))
    /\ res' = "ok"
    /\ UNCHANGED <<st, msk, nsid, nid, mpks, users, nuid, encs, lnk, idu, bad, saved>>

Past == pc > Len(Script) /\ pc' = pc
ObsUpd == obs' = ObsOf(usk', encs')
Free ==
    \/ \E d \in Dims : Past /\ AddDimA(d) /\ ObsUpd
    \/ \E d \in Dims : Past /\ DelDimA(d) /\ ObsUpd
    \/ \E d \in Dims, n \in Names, h \in Hints, after \in Names \cup {""} :
          /\ Past
          /\ LiveCount(st) < MaxAttrs /\ g.nextUid <= MaxUid
          /\ (after # "" => d \in DOMAIN st /\ st[d].kind = "H")
          /\ AddAttrA(d, n, h, after)
          /\ ObsUpd
    \/ \E d \in Dims, n \in Names : Past /\ DelAttrA(d, n) /\ ObsUpd
    \/ \E d \in Dims, n \in Names : Past /\ DisableA(d, n) /\ ObsUpd
    \/ \E d \in Dims, n \in Names, to \in Names : Past /\ RenameA(d, n, to) /\ ObsUpd
    \/ Past /\ UpdateA /\ ObsUpd
    \/ \E p \in Pols : Past /\ RekeyA(p) /\ ObsUpd
    \/ \E p \in Pols : Past /\ PruneA(p) /\ ObsUpd
    \/ \E u \in Users, p \in Pols : Past /\ KeyGenA(u, p) /\ ObsUpd
    \/ \E u \in Users, keep \in BOOLEAN : Past /\ RefreshA(u, keep) /\ ObsUpd
    \/ \E u \in Users, f \in Users : Past /\ CloneA(u, f) /\ ObsUpd
    \/ \E e \in EncIds, k \in 1..MaxMpk, p \in Pols : Past /\ EncapsA(e, k, p) /\ ObsUpd
    \/ \E e2 \in EncIds, e \in EncIds, k \in 1..MaxMpk : Past /\ RecapsA(e2, k, e) /\ ObsUpd
    \/ Past /\ RoundTripA /\ ObsUpd
    \/ Past /\ SaveA /\ ObsUpd
    \/ Past /\ RestoreA /\ ObsUpd
    \/ \E u \in Users : Past /\ DropUskA(u) /\ ObsUpd
    \/ Past /\ MpkA /\ ObsUpd
    \/ \E e \in EncIds : Past /\ DropEncA(e) /\ ObsUpd

Scripted(a) ==
    CASE a.op = "add_dim" -> AddDimA(a.d)
      [] a.op = "add_attr" -> AddAttrA(a.d, a.n, a.hint, a.after)
      [] a.op = "del_attr" -> DelAttrA(a.d, a.n)
      [] a.op = "disable" -> DisableA(a.d, a.n)
      [] a.op = "rename" -> RenameA(a.d, a.n, a.to)
      [] a.op = "update" -> UpdateA
      [] a.op = "rekey" -> RekeyA(a.pol)
      [] a.op = "prune" -> PruneA(a.pol)
      [] a.op = "keygen" -> KeyGenA(a.u, a.pol)
      [] a.op = "refresh" -> RefreshA(a.u, a.keep)
      [] a.op = "encaps" -> EncapsA(a.e, a.mpk, a.pol)

ScriptStep == pc <= Len(Script) /\ Scripted(Script[pc]) /\ pc' = pc + 1 /\ ObsUpd
Next == ScriptStep \/ Free

Spec == Init /\ [][Next]_vars

(***************************************************************************)
(* Properties (Layer P judged on Layer M's reachable states)               *)
(***************************************************************************)
\* every token the reference spec obliges u to be able to use is linked to a secret u holds
HeldToks(u) == {p[2] : p \in {q \in lnk : \E s \in Held(u) : s.sid = q[1]}}
CompleteHeld == \A u \in DOMAIN usk : u \in DOMAIN g.usk => g.usk[u].must \subseteq HeldToks(u)
\* every secret u holds is linked to some token the reference spec allows
SoundHeld == \A u \in DOMAIN usk : u \in DOMAIN g.usk =>
                \A s \in Held(u) : \E p \in lnk : p[1] = s.sid /\ p[2] \in g.usk[u].may

\* judged on the real encapsulations of the state
Pairs == {<<u, e>> : u \in DOMAIN usk \cap DOMAIN g.usk, e \in DOMAIN encs \cap DOMAIN g.enc}
CompleteOpens == \A p \in Pairs : MustOpen(g, p[1], p[2]) => Opens(p[1], p[2])
SoundOpens == \A p \in Pairs : MustNotOpen(g, p[1], p[2]) => ~Opens(p[1], p[2])

\* the reference specification never obliges and forbids the same secret
GhostOk == GhostWF(g)

\* C09/C10/C06/C17/C18: no call of the model disagreed with its contract
ContractOk == bad = {}

\* C05: after a refresh the key holds only secrets the master key holds for that right
HeldInMskStep ==
    (last'.op = "refresh" /\ res' = "ok") =>
        LET u == last'.u
        IN \A i \in 1..Len(usk'[u].ch) : usk'[u].ch[i].r \in DOMAIN msk'
            /\ {usk'[u].ch[i].c[j].sid : j \in 1..Len(usk'[u].ch[i].c)} \subseteq ChainSids(msk'[usk'[u].ch[i].r])
\* C04: without keeping old secrets exactly the newest secret of each right is left
NoKeepNewestStep ==
    (last'.op = "refresh" /\ res' = "ok" /\ ~last'.keep) =>
        LET u == last'.u
        IN \A i \in 1..Len(usk'[u].ch) : Len(usk'[u].ch[i].c) = 1 /\ usk'[u].ch[i].c[1].sid = msk'[usk'[u].ch[i].r][1].sid
\* C05: the master key keeps exactly the newest secret of each pruned right
PruneLeavesNewestStep ==
    (last'.op = "prune" /\ res' = "ok") =>
        \A r \in UskRights(st, last'.pol) \cap DOMAIN msk : Len(msk'[r]) = 1 /\ msk'[r][1] = msk[r][1]
\* C10: a failing call changes neither the master key nor any user key
FailUnchangedStep == res' = "err" => UNCHANGED <<msk, usk, users, saved>>
\* C13: a round trip changes nothing
RoundTripStep == last'.op = "roundtrip" => UNCHANGED <<st, msk, usk, users, mpks, encs, g, saved>>
\* C16: every secret created by a call is new
FreshStep == nsid' >= nsid /\ \A r \in DOMAIN msk' : \A i \in 1..Len(msk'[r]) :
                 (r \notin DOMAIN msk \/ msk'[r][i].sid \notin ChainSids(msk[r])) => msk'[r][i].sid >= nsid

\* C06: nothing disabled-and-updated is published by the newest public key
NoDisabledPublishedStep ==
    (last'.op \in {"update", "rekey", "prune"} /\ res' = "ok") =>
        \A f \in Sels(AllLists(st')) :
            LET c == ComboOfSel(g', f)
            IN (c \in DOMAIN g'.msk /\ ~g'.msk[c][1].a) => RightOfSel(f) \notin DOMAIN mpks'[Len(mpks')].keys

\* C11: flavours
FlavourOk ==
    /\ \A r \in DOMAIN msk : \A i \in 1..Len(msk[r]) : msk[r][i].h = msk[r][1].h
    /\ \A u \in DOMAIN usk : \A i \in 1..Len(usk[u].ch) :
          usk[u].ch[i].r \in DOMAIN msk => \A j \in 1..Len(usk[u].ch[i].c) : usk[u].ch[i].c[j].h = msk[usk[u].ch[i].r][1].h
    /\ \A e \in DOMAIN encs \cap DOMAIN g.enc : g.enc[e].tg # {} => encs[e].h = g.enc[e].h

\* C17: identifiers
IdsStep == (last'.op \in {"keygen", "refresh"} /\ res' = "ok") =>
              /\ usk'[last'.u].id \in users'
              /\ (last'.op = "keygen" => usk'[last'.u].id \notin users)

\* C18: the re-encapsulation targets between the certain and the possible rights
RecapsStep == (last'.op = "recaps" /\ res' = "ok" /\ last'.e \in DOMAIN g'.enc) =>
               /\ Cardinality(g'.enc[last'.e].tg) <= Cardinality(encs'[last'.e].tg)
               /\ Cardinality(encs'[last'.e].tg) <= Cardinality(g'.enc[last'.e].tgx)

StepProps == [][/\ HeldInMskStep /\ NoKeepNewestStep /\ PruneLeavesNewestStep /\ FailUnchangedStep
                /\ RoundTripStep /\ FreshStep /\ NoDisabledPublishedStep /\ IdsStep /\ RecapsStep]_vars

\* the alias cause: two attributes ever created share an implementation identifier
NoAlias == \A a, b \in DOMAIN idu : a # b => idu[a] # idu[b]

TypeOK == /\ res \in {"ok", "err"}
          /\ nsid \in 1..(MaxSid + 1)

=============================================================================
