------------------------------ MODULE RngCalls ------------------------------
(* Lock sections on the instance RNG per API call.                              *)
(*                                                                             *)
(* Documented: what api.rs / encrypted_header.rs do on the pinned tree.         *)
(* Measured:   how many times each call takes the lock when it runs ALONE on    *)
(* the tree under test (harness `conc --measure`, file named by RNGCALLS).      *)
(* How many lock sections a call is made of is an implementation choice, not a *)
(* property: the interleavings are enumerated for the sections the code has.   *)
(* A difference from the documented numbers is reported as MODEL-DRIFT.         *)
EXTENDS Naturals, Json, IOUtils
Documented(call) == IF call \in {"encrypt", "encrypt_big", "header_md"} THEN 2 ELSE 1
Measured == IF "RNGCALLS" \in DOMAIN IOEnv THEN JsonDeserialize(IOEnv.RNGCALLS) ELSE [none |-> 0]
Sections(call) == IF call \in DOMAIN Measured THEN Measured[call] ELSE Documented(call)
Draws(call, k) == CASE call = "encaps" /\ k = 1 -> 2          \* S, then shuffling
                    [] call \in {"encrypt", "encrypt_big", "header_md"} /\ k = 1 -> 2
                    [] call = "header" /\ k = 1 -> 2
                    [] OTHER -> 1
=============================================================================
