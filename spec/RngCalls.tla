------------------------------ MODULE RngCalls ------------------------------
(* Lock sections on the instance RNG per API call (api.rs, encrypted_header.rs). *)
EXTENDS Naturals
Sections(call) == IF call \in {"encrypt", "encrypt_big", "header_md"} THEN 2 ELSE 1
Draws(call, k) == CASE call = "encaps" -> 2          \* S, then shuffling
                    [] call \in {"encrypt", "encrypt_big", "header_md"} -> IF k = 1 THEN 2 ELSE 1   \* second section: the nonce
                    [] call = "header" -> 2
                    [] call = "decaps" -> 1
                    [] OTHER -> 1
=============================================================================
