SPECIFICATION Spec
CONSTANTS
  Dims = {"D1", "D2"}
  Kind <- MCKind
  Names = {"a", "b"}
  Users = {"u1", "u2"}
  EncIds = {"e1", "e2"}
  Pols <- MCPolsMid
  Hints = {FALSE}
  MaxAttrs = 3
  MaxUid = 3
  MaxSid = 12
  MaxMpk = 3
  MaxEvents = 0
  IdFromCount = TRUE
  Ops = {"Rekey", "KeyGen", "Refresh", "Encaps"}
  Script <- Script_HA
CONSTRAINT BoundNoAlias
VIEW view
INVARIANT TypeOK
INVARIANT ContractOk
INVARIANT CompleteHeld
INVARIANT SoundHeld
INVARIANT CompleteOpens
INVARIANT SoundOpens
INVARIANT FlavourOk
PROPERTY StepProps
CHECK_DEADLOCK FALSE
