SPECIFICATION TSpec
CONSTANTS
  Dims = {}
  Kind <- NoKind
  Names = {}
  Users = {}
  EncIds = {}
  Pols = {}
  Hints = {}
  MaxAttrs = 1000
  MaxUid = 1000
  MaxSid = 100000
  MaxMpk = 100000
  IdFromCount = TRUE
  Ops <- AllOps
  Script <- NoScript
  Mut = {}
CHECK_DEADLOCK FALSE
CONSTANT GhostGate <- NoAlias
