------------------------------- MODULE MC_Seq -------------------------------
(***************************************************************************)
(* EVERY sequence of at most K free operations after a scripted prefix, as *)
(* behaviours to be replayed on the real library (one JSON line each).     *)
(* The random driver and TLC's simulation sample sequences; the seeded     *)
(* changes of round 9 needed particular three- and four-step sequences     *)
(* (refresh with one flag, prune, refresh with the other flag; rekey,      *)
(* disable, update; ...).  Here TLC enumerates them all, for a small set   *)
(* of operations and arguments.                                            *)
(* hist records the calls (with the result the model predicts); it is part *)
(* of the VIEW, so every path is a distinct state.                         *)
(***************************************************************************)
EXTENDS MC_Life

CONSTANT K            \* number of free operations after the scripted prefix
VARIABLE hist
svars == <<vars, hist>>

\* scripted prefixes with a key and an encapsulation, so that short sequences are already non-trivial
Script_A_key == Script_A \o << [op |-> "keygen", u |-> "u1", pol |-> << <<<<"D2", "a">>>>, <<<<"D2", "b">>>> >>],
                              [op |-> "encaps", e |-> "e1", mpk |-> 2, pol |-> << <<<<"D2", "a">>>> >>] >>
Script_HA_key == Script_HA \o << [op |-> "keygen", u |-> "u1", pol |-> << <<<<"D1", "b">>>> >>],
                                [op |-> "encaps", e |-> "e1", mpk |-> 2, pol |-> << <<<<"D1", "a">>, <<"D2", "a">>>> >>] >>

\* hierarchy D1 created OUT of rank order (b is created last and ranked lowest), hybridised b; anarchy D2
Script_OutOfOrder == << [op |-> "add_dim", d |-> "D1"], Op("add_attr", "D1", "a", FALSE, ""), Op("add_attr", "D1", "c", TRUE, "a"),
                        Op("add_attr", "D1", "b", FALSE, "a"),
                        [op |-> "add_dim", d |-> "D2"], Op("add_attr", "D2", "a", TRUE, ""), [op |-> "update"],
                        [op |-> "keygen", u |-> "u1", pol |-> << <<<<"D1", "b">>>> >>],
                        [op |-> "encaps", e |-> "e1", mpk |-> 2, pol |-> << <<<<"D1", "c">>>> >>] >>
\* two targets, rotated once already
Script_A_two == Script_A \o << [op |-> "keygen", u |-> "u1", pol |-> << <<<<"D2", "a">>>>, <<<<"D2", "b">>>> >>],
                               [op |-> "encaps", e |-> "e1", mpk |-> 2, pol |-> << <<<<"D2", "a">>>>, <<<<"D2", "b">>>> >>] >>

SInit == Init /\ hist = <<>>
SNext == Next /\ hist' = Append(hist, [call |-> last', res |-> res'])
SSpec == SInit /\ [][SNext]_svars
sview == <<view, hist>>
Depth == Len(hist) <= Len(Script) + K
Emit == (Len(hist) = Len(Script) + K) => PrintT(<<"REPLAY", ToJson(hist)>>)
=============================================================================
