------------------------------ MODULE MC_Life ------------------------------
(* Model-checking instance of Covercrypt.tla: policy catalogue over the      *)
(* dimension / name pools, bounds, state constraint.                         *)
EXTENDS Covercrypt, Json

CONSTANTS MaxEvents      \* bound on the length of behaviours (via cnt)

\* single-clause policies naming at most one attribute per dimension, plus "*",
\* plus two-clause disjunctions of single-attribute policies
Atoms == {<<d, n>> : d \in Dims, n \in Names}
SingleClauses == {<<>>} \cup {<<a>> : a \in Atoms}
                 \cup {<<a, b>> : a \in Atoms, b \in Atoms} 
GoodClause(cl) == \A i, j \in 1..Len(cl) : i # j => cl[i][1] # cl[j][1]
MCPolsSmall == {<<cl>> : cl \in {c \in SingleClauses : GoodClause(c) /\ Len(c) <= 1}}
MCPolsMid == {<<cl>> : cl \in {c \in SingleClauses : GoodClause(c)}}
MCPolsFull == MCPolsMid \cup {<<<<a>>, <<b>>>> : a \in Atoms, b \in Atoms}
MCKind == [d \in Dims |-> IF d = "D1" THEN "H" ELSE "A"]

\* scripted prefixes: build a structure, publish it
Op(o, d, n, h, after) == [op |-> o, d |-> d, n |-> n, hint |-> h, after |-> after]
ScriptNone == <<>>
\* D1 (hierarchy): a < b ; D2 (anarchy): a
Script_HA == << [op |-> "add_dim", d |-> "D1"], Op("add_attr", "D1", "a", FALSE, ""), Op("add_attr", "D1", "b", FALSE, "a"),
                [op |-> "add_dim", d |-> "D2"], Op("add_attr", "D2", "a", FALSE, ""), [op |-> "update"] >>
\* same with hybridised hints on D1::b and D2::a... the hints come from Hints
Script_HA_hyb == << [op |-> "add_dim", d |-> "D1"], Op("add_attr", "D1", "a", FALSE, ""), Op("add_attr", "D1", "b", TRUE, "a"),
                    [op |-> "add_dim", d |-> "D2"], Op("add_attr", "D2", "a", FALSE, ""), Op("add_attr", "D2", "b", TRUE, ""), [op |-> "update"] >>
\* D2 only (anarchy) a, b
Script_A == << [op |-> "add_dim", d |-> "D2"], Op("add_attr", "D2", "a", FALSE, ""), Op("add_attr", "D2", "b", FALSE, ""), [op |-> "update"] >>

\* more static shapes (C01 / C02 / C11): two hierarchies; two anarchies; three dimensions
MCKindHH == [d \in Dims |-> "H"]
MCKindAA == [d \in Dims |-> "A"]
Script_2x2 == << [op |-> "add_dim", d |-> "D1"], Op("add_attr", "D1", "a", FALSE, ""), Op("add_attr", "D1", "b", TRUE, ""),
                 [op |-> "add_dim", d |-> "D2"], Op("add_attr", "D2", "a", FALSE, ""), Op("add_attr", "D2", "b", TRUE, "a"), [op |-> "update"] >>
\* (in a hierarchy "b" added with after = "" is the LOWEST rank although created last: rank order differs from creation order)
Script_3dims == << [op |-> "add_dim", d |-> "D1"], Op("add_attr", "D1", "a", FALSE, ""), Op("add_attr", "D1", "b", FALSE, ""),
                   [op |-> "add_dim", d |-> "D2"], Op("add_attr", "D2", "a", TRUE, ""),
                   [op |-> "add_dim", d |-> "D3"], Op("add_attr", "D3", "a", FALSE, ""), [op |-> "update"] >>

Bound == /\ nsid <= MaxSid + 1
         /\ Len(mpks) <= MaxMpk
         /\ g.nextUid <= MaxUid + 1

BoundNoAlias == Bound /\ NoAlias

\* behaviours for replay on the real library (-simulate): one line per state
PrintBeh == PrintT(<<"BEH", TLCGet("level"), ToJson(last), res>>)
=============================================================================
