INIT Init
NEXT Next
CONSTANTS
  NAttr = 3
  MaxLeaves = 4
CHECK_DEADLOCK FALSE
