------------------------------- MODULE Wire -------------------------------
(***************************************************************************)
(* C14: deserializing or using untrusted bytes never crashes, hangs or     *)
(* over-allocates.                                                         *)
(*                                                                         *)
(* The module is                                                           *)
(*  1. the WIRE GRAMMAR of the six serialized types as field trees, in the *)
(*     order of the `write` functions (integers are LEB128);               *)
(*  2. a READER MACHINE (variables pos, remaining, allocated, todo) that   *)
(*     interprets a field tree on an abstract input of len0 bytes whose    *)
(*     counts, lengths, selectors and contents are chosen by the adversary *)
(*     and that follows the discipline of the code:                        *)
(*        read count -> pre-allocate min(count, remaining) * elemsize      *)
(*                   -> read the elements one by one;                      *)
(*        read length -> check it against remaining -> allocate -> copy.   *)
(*     TLC checks the invariant  allocated <= K(type) * len0 + C(type)     *)
(*     on it (mode "gen"); with Capped = FALSE (the defect: capacity and   *)
(*     vector lengths taken from the input) the invariant is violated;     *)
(*  3. the GENERATOR of the abstract cases: for every type and object,     *)
(*     the mutation classes truncate / flip / random, and for EVERY count  *)
(*     or length field of the grammar (enumerated from the tree) the       *)
(*     boundary values, raw ("count": only the integer is rewritten) and   *)
(*     consistent ("resize": the elements are dropped / duplicated too);   *)
(*  4. the JUDGE of the observed records (mode "check"): outcome class,    *)
(*     time bound, allocation bound K * len + C recomputed here, field     *)
(*     path known to the grammar.                                          *)
(***************************************************************************)
EXTENDS Naturals, Sequences, FiniteSets, TLC, Json, IOUtils

CONSTANTS SCALAR, POINT, EK, DK, CT,   \* wire sizes of the feature set (bytes)
          Capped,                      \* TRUE: the reader caps capacities and checks lengths
          Lens,                        \* abstract input lengths explored by the reader machine
          BigLens                      \* additional lengths for the types without small nested elements

Mode == IF "MODE" \in DOMAIN IOEnv THEN IOEnv.MODE ELSE "gen"

TAG == 16
SEED == 32
SIGNATURE == 32
SIGNKEY == 16

(***************************************************************************)
(* Field trees.  `mem` = heap bytes requested per element (rep: one slot   *)
(* of the container; bytes: a boxed value), an upper bound of what the     *)
(* library's data structures need (Vec<RistrettoPoint>: 160 per slot,      *)
(* hash tables: entry size * load factor, linked lists: node size, growing *)
(* vectors: old + new buffer).                                             *)
(***************************************************************************)
Bytes(nm, n, mem) == [k |-> "bytes", name |-> nm, n |-> n, mem |-> mem]
Int(nm) == [k |-> "int", name |-> nm]                     \* LEB128 datum (identifier)
Flag(nm, max) == [k |-> "flag", name |-> nm, max |-> max] \* LEB128 that must be <= max
VecB(nm) == [k |-> "vec", name |-> nm]                    \* LEB128 length, then that many bytes
Rep(nm, e, pre, mem) == [k |-> "rep", name |-> nm, elem |-> e, pre |-> pre, mem |-> mem]
Grp(nm, items) == [k |-> "seq", name |-> nm, items |-> items]
Sel(nm, alts) == [k |-> "alt", name |-> nm, alts |-> alts] \* LEB128 selector i, then alts[i+1]
Tail0(nm, n) == [k |-> "opt", name |-> nm, n |-> n]         \* n bytes, present iff >= n bytes remain

Scalar(nm) == Bytes(nm, SCALAR, 0)
Point(nm) == Bytes(nm, POINT, 0)

\* UserId: LinkedList of scalars
UserIdG(nm) == Rep(nm, Scalar("marker"), FALSE, 64)
\* RightSecretKey: flag, scalar [, boxed ML-KEM decapsulation key]
RightSkG == Sel("sk", <<Grp("classic", <<Scalar("sk")>>),
                        Grp("hybrid", <<Scalar("sk"), Bytes("dk", DK, 2 * DK)>>)>>)
\* RightPublicKey: flag, point [, boxed ML-KEM encapsulation key]
RightPkG == Sel("pk", <<Grp("classic", <<Point("H")>>),
                        Grp("hybrid", <<Point("H"), Bytes("ek", EK, 2 * EK)>>)>>)

\* Encapsulations: flag(0|1), count, count x F  or  count x (E ++ F); collected into a growing Vec
EncsG == Sel("encs", <<Rep("classic", Bytes("F", SEED, 0), FALSE, 3 * SEED),
                       Rep("hybrid", Grp("", <<Bytes("E", CT, CT), Bytes("F", SEED, 0)>>), FALSE, 3 * (SEED + 8))>>)

XEncItems == <<Bytes("tag", TAG, 0),
               Rep("traps", Point("trap"), TRUE, 160),
               EncsG>>
XEncG == Grp("xenc", XEncItems)
HeaderG == Grp("header", XEncItems \o <<VecB("ciphertext")>>)

AttributeG == Grp("", <<VecB("name"), Int("id"), Flag("hint", 1), Flag("status", 1)>>)
DimensionG == Grp("", <<VecB("name"), Flag("kind", 1), Rep("attrs", AttributeG, FALSE, 512)>>)
StructureItems == <<Flag("version", 0), Rep("dims", DimensionG, FALSE, 512)>>
StructureG == Grp("structure", StructureItems)

UskG == Grp("usk", <<UserIdG("id"),
                     Rep("ps", Point("p"), TRUE, 160),
                     Rep("rights", Grp("", <<VecB("right"), Rep("keys", RightSkG, FALSE, 96)>>), TRUE, 64),
                     Tail0("signature", SIGNATURE)>>)

MpkG == Grp("mpk", <<Rep("tpk", Point("tracer"), FALSE, 192),
                     Rep("rights", Grp("", <<VecB("right"), RightPkG>>), TRUE, 640),
                     Grp("structure", StructureItems)>>)

TskItems == <<Scalar("s"),
              Rep("tracers", Grp("", <<Scalar("sk"), Point("pk")>>), FALSE, 256),
              Rep("users", UserIdG("id"), TRUE, 64)>>
MskG == Grp("msk", <<Grp("tsk", TskItems),
                     Rep("rights", Grp("", <<VecB("right"),
                                             Rep("keys", Grp("", <<Flag("activated", 1), RightSkG>>), FALSE, 128)>>),
                         TRUE, 160),
                     Tail0("signing_key", SIGNKEY),
                     Grp("structure", StructureItems)>>)

Types == {"xenc", "header", "usk", "mpk", "msk", "structure"}
Grammar(t) == CASE t = "xenc" -> XEncG
                [] t = "header" -> HeaderG
                [] t = "usk" -> UskG
                [] t = "mpk" -> MpkG
                [] t = "msk" -> MskG
                [] t = "structure" -> StructureG

(***************************************************************************)
(* Enumeration of the count and length fields of a tree, with their paths. *)
(***************************************************************************)
Join(p, nm) == IF nm = "" THEN p ELSE IF p = "" THEN nm ELSE p \o "/" \o nm
SeqRange(s) == {s[i] : i \in 1..Len(s)}

RECURSIVE Fields(_, _)
Fields(g, prefix) ==
  LET p == Join(prefix, g.name)
  IN CASE g.k = "rep" -> {[path |-> p \o "#n", kind |-> "count", pre |-> g.pre, mem |-> g.mem]}
                          \cup Fields(g.elem, p \o "[]")
       [] g.k = "vec" -> {[path |-> p \o "#len", kind |-> "length", pre |-> TRUE, mem |-> 1]}
       [] g.k = "seq" -> UNION {Fields(x, p) : x \in SeqRange(g.items)}
       [] g.k = "alt" -> UNION {Fields(x, p) : x \in SeqRange(g.alts)}
       [] OTHER -> {}
FieldsOf(t) == Fields(Grammar(t), "")
Paths(t) == {f.path : f \in FieldsOf(t)}

\* smallest number of bytes a well-formed instance of the tree occupies
Min2(a, b) == IF a <= b THEN a ELSE b
Max2(a, b) == IF a >= b THEN a ELSE b
RECURSIVE SumSeq(_)
SumSeq(s) == IF s = <<>> THEN 0 ELSE Head(s) + SumSeq(Tail(s))
RECURSIVE MinSeq(_)
MinSeq(s) == IF Len(s) = 1 THEN s[1] ELSE Min2(Head(s), MinSeq(Tail(s)))
RECURSIVE MinSize(_)
MinSize(g) == CASE g.k = "bytes" -> g.n
                [] g.k \in {"int", "flag", "vec", "rep"} -> 1
                [] g.k = "seq" -> SumSeq([i \in 1..Len(g.items) |-> MinSize(g.items[i])])
                [] g.k = "alt" -> 1 + MinSeq([i \in 1..Len(g.alts) |-> MinSize(g.alts[i])])
                [] g.k = "opt" -> 0
CeilDiv(a, b) == (a + b - 1) \div b

(***************************************************************************)
(* Resource bound.  Every node contributes the heap bytes it may request   *)
(* per input byte: a pre-allocating count at most `mem` per REMAINING byte *)
(* (capacity = min(count, remaining)), an element-wise container `mem` per *)
(* element actually started, each of which consumes >= MinSize(elem)       *)
(* bytes, a vector one byte per byte.  The error value of `deserialize`    *)
(* prints the whole input (ErrK bytes of text per byte, growing buffer).   *)
(***************************************************************************)
ErrK == 32
ErrC == 4096
BaseC == 16384
RECURSIVE PerByte(_)
PerByte(g) == CASE g.k = "rep" -> (IF g.pre THEN g.mem ELSE CeilDiv(g.mem, MinSize(g.elem))) + PerByte(g.elem)
                [] g.k = "vec" -> 1
                [] g.k = "bytes" -> CeilDiv(g.mem, g.n)
                [] g.k = "seq" -> SumSeq([i \in 1..Len(g.items) |-> PerByte(g.items[i])])
                [] g.k = "alt" -> SumSeq([i \in 1..Len(g.alts) |-> PerByte(g.alts[i])])
                [] OTHER -> 0
RECURSIVE MaxMem(_)
MaxMem(g) == CASE g.k = "rep" -> Max2(g.mem, MaxMem(g.elem))
               [] g.k = "bytes" -> g.mem
               [] g.k = "seq" -> SumSeq([i \in 1..Len(g.items) |-> MaxMem(g.items[i])])
               [] g.k = "alt" -> SumSeq([i \in 1..Len(g.alts) |-> MaxMem(g.alts[i])])
               [] OTHER -> 0
K(t) == ErrK + PerByte(Grammar(t))
C(t) == ErrC + BaseC + MaxMem(Grammar(t))
AllocBound(t, len) == K(t) * len + C(t)
\* wall-clock bound of deserialize + use of one mutant, milliseconds
MsBound(len) == 1500 + len \div 8

(***************************************************************************)
(* The reader machine.                                                     *)
(***************************************************************************)
VARIABLES ty, len0, pos, remaining, allocated, todo, status
vars == <<ty, len0, pos, remaining, allocated, todo, status>>

Huge == 100000          \* stands for 2^32 .. 2^64-1: more than any input can satisfy
Loop(e, left, mem) == [k |-> "loop", elem |-> e, left |-> left, mem |-> mem]

Init == /\ ty \in (IF Mode = "gen" THEN Types ELSE {"xenc"})
        /\ len0 \in (IF Mode = "gen" THEN Lens \cup (IF ty \in {"xenc", "header"} THEN BigLens ELSE {}) ELSE {0})
        /\ pos = 0
        /\ remaining = len0
        /\ allocated = 0
        /\ todo = IF Mode = "gen" THEN <<Grammar(ty)>> ELSE <<>>
        /\ status = IF Mode = "gen" THEN "run" ELSE "error"

Consume(n) == /\ pos' = pos + n
              /\ remaining' = remaining - n
Fail == /\ status' = "error"
        /\ todo' = <<>>
        /\ allocated' = allocated + ErrK * len0 + ErrC
        /\ UNCHANGED <<pos, remaining>>
Rest == Tail(todo)

\* one LEB128 integer is at least one byte; the adversary picks its value
ReadInt(g) == /\ remaining >= 1
              /\ Consume(1)
              /\ todo' = Rest
              /\ UNCHANGED <<allocated, status>>

ReadBytes(g) == /\ remaining >= g.n
                /\ Consume(g.n)
                /\ allocated' = allocated + g.mem
                /\ todo' = Rest
                /\ UNCHANGED status

ReadOpt(g) == /\ IF remaining >= g.n THEN Consume(g.n) ELSE UNCHANGED <<pos, remaining>>
              /\ todo' = Rest
              /\ UNCHANGED <<allocated, status>>

ReadSeq(g) == /\ todo' = g.items \o Rest
              /\ UNCHANGED <<pos, remaining, allocated, status>>

ReadAlt(g) == /\ remaining >= 1
              /\ \E i \in 1..Len(g.alts) :
                    /\ Consume(1)
                    /\ todo' = <<g.alts[i]>> \o Rest
                    /\ UNCHANGED <<allocated, status>>

Counts(rem) == {0, 1, Huge}
ReadRep(g) == /\ remaining >= 1
              /\ \E c \in Counts(remaining - 1) :
                    /\ Consume(1)
                    /\ allocated' = allocated + (IF ~g.pre THEN 0
                                                 ELSE IF Capped THEN Min2(c, remaining - 1) * g.mem
                                                 ELSE c * g.mem)
                    /\ todo' = <<Loop(g.elem, c, IF g.pre THEN 0 ELSE g.mem)>> \o Rest
                    /\ UNCHANGED status

\* an element is read only if something is left (every element is >= 1 byte)
ReadLoop(g) == IF g.left = 0
               THEN /\ todo' = Rest
                    /\ UNCHANGED <<pos, remaining, allocated, status>>
               ELSE IF remaining = 0
               THEN Fail
               ELSE /\ todo' = <<g.elem, Loop(g.elem, IF g.left = Huge THEN Huge ELSE g.left - 1, g.mem)>> \o Rest
                    /\ allocated' = allocated + g.mem
                    /\ UNCHANGED <<pos, remaining, status>>

Lengths(rem) == {0, rem, rem + 1, Huge}
ReadVec(g) == /\ remaining >= 1
              /\ \E l \in Lengths(remaining - 1) :
                    IF l <= remaining - 1
                    THEN /\ Consume(1 + l)
                         /\ allocated' = allocated + l
                         /\ todo' = Rest
                         /\ UNCHANGED status
                    ELSE IF Capped
                    THEN Fail
                    ELSE /\ status' = "error"     \* allocates first, then fails to fill the buffer
                         /\ todo' = <<>>
                         /\ allocated' = allocated + l + ErrK * len0 + ErrC
                         /\ UNCHANGED <<pos, remaining>>

Step == /\ status = "run"
        /\ todo # <<>>
        /\ LET g == Head(todo)
           IN CASE g.k = "bytes" -> ReadBytes(g)
                [] g.k \in {"int", "flag"} -> ReadInt(g)
                [] g.k = "vec" -> ReadVec(g)
                [] g.k = "rep" -> ReadRep(g)
                [] g.k = "loop" -> ReadLoop(g)
                [] g.k = "seq" -> ReadSeq(g)
                [] g.k = "alt" -> ReadAlt(g)
                [] g.k = "opt" -> ReadOpt(g)

\* `deserialize` rejects trailing bytes
Finish == /\ status = "run"
          /\ todo = <<>>
          /\ IF remaining = 0
             THEN /\ status' = "value"
                  /\ UNCHANGED <<pos, remaining, allocated, todo>>
             ELSE Fail

Next == /\ \/ Step
           \/ Finish
        /\ UNCHANGED <<ty, len0>>

Spec == Init /\ [][Next]_vars

TypeOK == /\ status \in {"run", "value", "error"}
          /\ pos + remaining = len0
\* contents may be rejected at any field (invalid point, flag out of range, non-canonical
\* scalar): the cost of the error value is therefore charged in every running state
AllocOK == allocated + (IF status = "run" THEN ErrK * len0 + ErrC ELSE 0) <= AllocBound(ty, len0)

(***************************************************************************)
(* Mode gen: the abstract cases.                                           *)
(***************************************************************************)
Objects == {"small", "large"}
Boundary == {"0", "1", "n-1", "n+1", "2^32", "2^63", "2^64-1"}
Consistent == {"0", "1", "n-1", "n+1"}
Expected == "value-or-error"

Base(t, o, m) == [type |-> t, object |-> o, mutation |-> m, expected |-> Expected,
                  K |-> K(t), C |-> C(t)]
FieldCase(t, o, m, f, v) == [type |-> t, object |-> o, mutation |-> m, expected |-> Expected,
                             K |-> K(t), C |-> C(t), field |-> f.path, kind |-> f.kind, pre |-> f.pre, value |-> v]

Gen == /\ \A t \in Types : PrintT(<<"GRAMMAR", ToJson([type |-> t, grammar |-> Grammar(t), K |-> K(t), C |-> C(t)])>>)
       /\ \A t \in Types : \A o \in Objects :
            /\ \A m \in {"truncate", "flip", "random"} : PrintT(<<"CASE", ToJson(Base(t, o, m))>>)
            /\ \A f \in FieldsOf(t) :
                 /\ \A v \in Boundary : PrintT(<<"CASE", ToJson(FieldCase(t, o, "count", f, v))>>)
                 /\ \A v \in Consistent : PrintT(<<"CASE", ToJson(FieldCase(t, o, "resize", f, v))>>)
       /\ PrintT(<<"GEN-DONE", Cardinality(UNION {FieldsOf(t) : t \in Types})>>)

(***************************************************************************)
(* Mode check.  Observed records:                                          *)
(*  kind "layout": [type, object, len, walked, fields]  -- the layout      *)
(*      cutter, driven by the grammar above, walked the valid object to    *)
(*      its last byte and re-encoded every field identically;              *)
(*  kind "case": one per (abstract case, outcome class):                   *)
(*      [type, object, mutation, (field, value), class, n, max_ms,         *)
(*       max_len, worst_peak, worst_len, used, examples]                   *)
(*      class: "value" | "error" | "panic" | "abort" | "hang" |            *)
(*             "use-panic" | "use-abort" | "use-hang" | "overalloc" | "slow" *)
(*      worst_* : the mutant of the record with the largest excess of      *)
(*      peak allocation over K * len.                                      *)
(***************************************************************************)
Obs == IF Mode = "check" THEN ndJsonDeserialize(IOEnv.TRACE) ELSE <<>>
Has(o, f) == f \in DOMAIN o
Why(o) ==
  IF o.kind = "layout"
  THEN IF ~o.walked THEN "layout"
       ELSE IF o.type \notin Types THEN "domain"
       ELSE IF \E i \in 1..Len(o.fields) : o.fields[i] \notin Paths(o.type) THEN "field-path"
       ELSE "ok"
  ELSE IF o.type \notin Types \/ o.object \notin Objects THEN "domain"
  ELSE IF o.mutation \notin {"truncate", "flip", "random", "count", "resize"} THEN "domain"
  ELSE IF o.mutation \in {"count", "resize"} /\ (~Has(o, "field") \/ ~Has(o, "value")) THEN "domain"
  ELSE IF o.mutation \in {"count", "resize"} /\ o.field \notin Paths(o.type) THEN "field-path"
  ELSE IF o.mutation = "count" /\ o.value \notin Boundary THEN "domain"
  ELSE IF o.mutation = "resize" /\ o.value \notin Consistent THEN "domain"
  ELSE IF o.class \notin {"value", "error"} THEN o.class
  ELSE IF o.worst_peak > AllocBound(o.type, o.worst_len) THEN "overalloc"
  ELSE IF o.max_ms > MsBound(o.max_len) THEN "slow"
  ELSE "ok"
Bad(i) == Why(Obs[i]) # "ok"
Check == /\ \A i \in 1..Len(Obs) : Bad(i) => PrintT(<<"VIOL", i, ToJson([why |-> Why(Obs[i]), rec |-> Obs[i]])>>)
         /\ PrintT(<<"CHECK-DONE", Len(Obs), Cardinality({i \in 1..Len(Obs) : Bad(i)})>>)

ASSUME IF Mode = "gen" THEN Gen ELSE Check
=============================================================================
