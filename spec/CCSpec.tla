------------------------------- MODULE CCSpec -------------------------------
(***************************************************************************)
(* Name-level reference specification of Covercrypt ("Layer P").           *)
(*                                                                         *)
(* This module is written from the STATEMENTS of the properties, not from  *)
(* the code: attributes are never-reused uids, rights are sets of uids     *)
(* ("combos", at most one attribute per dimension), secrets are tokens     *)
(* from a counter.  It is a pure state-transformer library: the abstract   *)
(* state is one record g, every API call is an operator g |-> g' together  *)
(* with the contract verdict (must succeed / must fail / unconstrained).   *)
(* It is used                                                              *)
(*   - by Covercrypt.tla (Layer M) as ghost state next to the              *)
(*     implementation-shaped model, where TLC compares the two             *)
(*     exhaustively, and                                                   *)
(*   - by PTrace.tla, where the abstract state is advanced by the calls    *)
(*     logged from the real library and the logged observations are        *)
(*     judged against it.                                                  *)
(***************************************************************************)
EXTENDS Naturals, Sequences, FiniteSets, TLC

Range(s) == {s[i] : i \in 1..Len(s)}

RECURSIVE SeqOfSet(_)
SeqOfSet(S) == IF S = {} THEN <<>>
               ELSE LET x == CHOOSE y \in S : TRUE IN <<x>> \o SeqOfSet(S \ {x})

Without(f, S) == [x \in DOMAIN f \ S |-> f[x]]
Pos(s, x) == IF \E i \in 1..Len(s) : s[i] = x
             THEN CHOOSE i \in 1..Len(s) : s[i] = x ELSE 0
RemoveAt(s, i) == SubSeq(s, 1, i - 1) \o SubSeq(s, i + 1, Len(s))
InsertAt(s, i, x) == SubSeq(s, 1, i - 1) \o <<x>> \o SubSeq(s, i, Len(s))

(***************************************************************************)
(* Abstract state.                                                         *)
(*  st    : dimension name -> [kind: "H"|"A", order: Seq(uid)]  (rank      *)
(*          ascending for "H"; insertion order, irrelevant, for "A")       *)
(*  attrs : uid -> [d, n, h (hybridised hint), dis (disabled)]  for every  *)
(*          attribute ever created (names of dead ones are kept)           *)
(*  msk   : combo -> Seq([t, h, a])  newest first                          *)
(*  mpks  : mpk id -> [keys: combo -> [t, h], st, attrs]                   *)
(*  usk   : handle -> [grant0, grant, must, may, asof, lost, dropped, id]  *)
(*  enc   : handle -> [tg: set of [c, t], h]                               *)
(*  known : set of user identifiers registered in the master key           *)
(*  saved : slot -> [st, attrs, msk, known]                                *)
(***************************************************************************)
EmptyFn == [x \in {} |-> 0]

GInit == [ st |-> EmptyFn, attrs |-> EmptyFn, nextUid |-> 1,
           msk |-> (({}) :> <<[t |-> 1, h |-> FALSE, a |-> TRUE]>>), nextTok |-> 2,
           mpks |-> (1 :> [keys |-> (({}) :> [t |-> 1, h |-> FALSE]),
                           st |-> EmptyFn, attrs |-> EmptyFn]),
           nmpk |-> 1,
           usk |-> EmptyFn, enc |-> EmptyFn, removed |-> {},
           known |-> {}, nextId |-> 1, saved |-> EmptyFn,
           edited |-> FALSE, updates |-> 0 ]

(***************************************************************************)
(* Structure helpers                                                       *)
(***************************************************************************)
LiveUids(st) == UNION {Range(st[d].order) : d \in DOMAIN st}
UidOf(st, attrs, d, n) ==
    IF d \notin DOMAIN st THEN 0
    ELSE LET S == {u \in Range(st[d].order) : attrs[u].n = n}
         IN IF S = {} THEN 0 ELSE CHOOSE u \in S : TRUE

\* all combos: at most one live attribute per dimension
Combos(st) ==
    LET D == DOMAIN st
        U == LiveUids(st)
    IN UNION { { {f[d] : d \in sub} : f \in {h \in [sub -> U] : \A d \in sub : h[d] \in Range(st[d].order)} }
               : sub \in SUBSET D }

HintOf(attrs, c) == \E u \in c : attrs[u].h
DisabledOf(attrs, c) == \E u \in c : attrs[u].dis

(***************************************************************************)
(* Policies: a policy is a sequence of clauses, a clause a sequence of     *)
(* <<dimension, name>>.  <<>> as a clause is the broadcast "*".            *)
(***************************************************************************)
AtomsResolve(st, attrs, cl) == \A i \in 1..Len(cl) : UidOf(st, attrs, cl[i][1], cl[i][2]) # 0
PolResolves(st, attrs, pol) == \A k \in 1..Len(pol) : AtomsResolve(st, attrs, pol[k])
OneAttrPerDim(cl) == \A i, j \in 1..Len(cl) : i # j => cl[i][1] # cl[j][1]
UserPolWellFormed(pol) == \A k \in 1..Len(pol) : OneAttrPerDim(pol[k])

\* The cover relation of C01, on names and ranks: user clause U covers combo c
CoversCombo(st, attrs, U, c) ==
    \A i \in 1..Len(U) :
        LET d == U[i][1]
            a == UidOf(st, attrs, d, U[i][2])
            inD == {b \in c : attrs[b].d = d}
        IN \/ inD = {}
           \/ /\ st[d].kind = "A"
              /\ a \in c
           \/ /\ st[d].kind = "H"
              /\ \E b \in inD : Pos(st[d].order, b) <= Pos(st[d].order, a) /\ Pos(st[d].order, b) > 0

GrantCombos(st, attrs, pol) ==
    {c \in Combos(st) : \E k \in 1..Len(pol) : CoversCombo(st, attrs, pol[k], c)}

\* Encryption side: one combo per clause
ClauseCombo(st, attrs, cl) == {UidOf(st, attrs, cl[i][1], cl[i][2]) : i \in 1..Len(cl)}
EncPolValid(st, attrs, pol) ==
    \A k \in 1..Len(pol) : AtomsResolve(st, attrs, pol[k]) /\ OneAttrPerDim(pol[k])

(***************************************************************************)
(* Master-key helpers                                                      *)
(***************************************************************************)
ChainToks(ch) == {ch[i].t : i \in 1..Len(ch)}
LiveToks(msk) == UNION {ChainToks(msk[c]) : c \in DOMAIN msk}
Heads(msk, C) == {msk[c][1].t : c \in C \cap DOMAIN msk}
AllToks(msk, C) == UNION {ChainToks(msk[c]) : c \in C \cap DOMAIN msk}
Published(msk) == {c \in DOMAIN msk : msk[c][1].a}
MpkOf(g, msk) == [keys |-> [c \in Published(msk) |-> [t |-> msk[c][1].t, h |-> msk[c][1].h]],
                  st |-> g.st, attrs |-> g.attrs]
PushMpk(g, msk) == [g EXCEPT !.mpks = @ @@ ((g.nmpk + 1) :> MpkOf(g, msk)), !.nmpk = @ + 1]

(***************************************************************************)
(* Contract verdicts: "ok" = must succeed, "err" = must fail,              *)
(* "any" = the statements do not decide.                                   *)
(***************************************************************************)
V(b) == IF b THEN "ok" ELSE "err"

\* ---- structure edits (they act on the structure held by the master key)
AddDimV(g, d) == V(d \notin DOMAIN g.st)
AddDim(g, d, kind) ==
    [g EXCEPT !.st = @ @@ (d :> [kind |-> kind, order |-> <<>>]), !.edited = (@ \/ g.updates > 0)]

DelDimV(g, d) == V(d \in DOMAIN g.st)
DelDim(g, d) == [g EXCEPT !.st = Without(@, {d}), !.edited = (@ \/ g.updates > 0)]

\* after = "" encodes "no after argument"
AddAttrV(g, d, n, after) ==
    V(/\ d \in DOMAIN g.st
      /\ UidOf(g.st, g.attrs, d, n) = 0
      /\ (g.st[d].kind = "H" /\ after # "") => UidOf(g.st, g.attrs, d, after) # 0)
AddAttr(g, d, n, hint, after) ==
    LET u == g.nextUid
        o == g.st[d].order
        p == IF g.st[d].kind = "H"
             THEN (IF after = "" THEN 1 ELSE Pos(o, UidOf(g.st, g.attrs, d, after)) + 1)
             ELSE Len(o) + 1
    IN [g EXCEPT !.st[d].order = InsertAt(o, p, u),
                 !.attrs = @ @@ (u :> [d |-> d, n |-> n, h |-> hint, dis |-> FALSE]),
                 !.nextUid = u + 1, !.edited = (@ \/ g.updates > 0)]

DelAttrV(g, d, n) == V(UidOf(g.st, g.attrs, d, n) # 0)
DelAttr(g, d, n) ==
    LET u == UidOf(g.st, g.attrs, d, n)
    IN [g EXCEPT !.st[d].order = RemoveAt(@, Pos(@, u)), !.edited = (@ \/ g.updates > 0)]

RenameV(g, d, n, to) == V(UidOf(g.st, g.attrs, d, n) # 0 /\ UidOf(g.st, g.attrs, d, to) = 0)
Rename(g, d, n, to) ==
    LET u == UidOf(g.st, g.attrs, d, n)
    IN [g EXCEPT !.attrs[u].n = to, !.edited = (@ \/ g.updates > 0)]

DisableV(g, d, n) == V(UidOf(g.st, g.attrs, d, n) # 0)
Disable(g, d, n) ==
    LET u == UidOf(g.st, g.attrs, d, n)
    IN [g EXCEPT !.attrs[u].dis = TRUE, !.edited = (@ \/ g.updates > 0)]

\* ---- master key update
BornDisabled(g) == \E c \in Combos(g.st) \ DOMAIN g.msk : DisabledOf(g.attrs, c)
UpdateV(g) == V(~BornDisabled(g))
Update(g) ==
    LET C == Combos(g.st)
        new == SeqOfSet(C \ DOMAIN g.msk)
        idx(c) == Pos(new, c)
        msk2 == [c \in C |->
                   IF c \in DOMAIN g.msk
                   THEN [g.msk[c] EXCEPT ![1].a = ~DisabledOf(g.attrs, c)]
                   ELSE <<[t |-> g.nextTok + idx(c) - 1, h |-> HintOf(g.attrs, c), a |-> TRUE]>>]
        gone == AllToks(g.msk, DOMAIN g.msk \ C)
        g2 == [g EXCEPT !.msk = msk2, !.nextTok = @ + Len(new),
                        !.removed = @ \cup gone, !.updates = @ + 1]
    IN PushMpk(g2, msk2)

\* ---- rekey / prune
UserPolV(g, pol) == PolResolves(g.st, g.attrs, pol)
RekeyV(g, pol) ==
    IF ~UserPolWellFormed(pol) THEN "any"
    ELSE V(UserPolV(g, pol) /\ GrantCombos(g.st, g.attrs, pol) \subseteq DOMAIN g.msk)
Rekey(g, pol) ==
    LET GC == SeqOfSet(GrantCombos(g.st, g.attrs, pol))
        idx(c) == Pos(GC, c)
        msk2 == [c \in DOMAIN g.msk |->
                   IF idx(c) > 0
                   THEN <<[t |-> g.nextTok + idx(c) - 1, h |-> g.msk[c][1].h, a |-> g.msk[c][1].a]>> \o g.msk[c]
                   ELSE g.msk[c]]
        g2 == [g EXCEPT !.msk = msk2, !.nextTok = @ + Len(GC)]
    IN PushMpk(g2, msk2)

PruneV(g, pol) == IF ~UserPolWellFormed(pol) THEN "any" ELSE V(UserPolV(g, pol))
Prune(g, pol) ==
    LET GC == GrantCombos(g.st, g.attrs, pol)
        msk2 == [c \in DOMAIN g.msk |-> IF c \in GC THEN <<g.msk[c][1]>> ELSE g.msk[c]]
        gone == LiveToks(g.msk) \ LiveToks(msk2)
        g2 == [g EXCEPT !.msk = msk2, !.removed = @ \cup gone]
    IN PushMpk(g2, msk2)

RederiveMpk(g) == PushMpk(g, g.msk)

\* ---- user keys
KeyGenV(g, pol) == RekeyV(g, pol)
KeyGen(g, u, pol) ==
    LET GC == GrantCombos(g.st, g.attrs, pol)
        hs == Heads(g.msk, GC)
    IN [g EXCEPT !.usk = Without(@, {u}) @@
                     (u :> [grant0 |-> GC, grant |-> GC, must |-> hs, may |-> hs,
                            asof |-> g.nextTok, lost |-> {}, dropped |-> {}, id |-> g.nextId,
                            refreshed |-> FALSE]),
                 !.known = @ \cup {g.nextId}, !.nextId = @ + 1]

CloneUsk(g, u, from) == [g EXCEPT !.usk = Without(@, {u}) @@ (u :> g.usk[from])]
DropUsk(g, u) == [g EXCEPT !.usk = Without(@, {u})]
DropEnc(g, e) == [g EXCEPT !.enc = Without(@, {e})]

RefreshV(g, u) == V(g.usk[u].id \in g.known)
\* usable = secrets the key was OBSERVED to use right before the call
Refresh(g, u, keep, usable) ==
    LET k == g.usk[u]
        gr == k.grant \cap DOMAIN g.msk
        live == LiveToks(g.msk)
        hs == Heads(g.msk, gr)
        must2 == IF keep THEN ((k.must \cup (usable \cap k.may)) \cap live) \cup hs ELSE hs
        may2 == IF keep THEN (k.may \cap live) \cup AllToks(g.msk, gr) ELSE hs
    IN [g EXCEPT !.usk[u] = [k EXCEPT !.grant = gr, !.must = must2, !.may = may2,
                                      !.asof = g.nextTok, !.refreshed = TRUE,
                                      !.lost = @ \cup ((k.may \ live) \ may2),
                                      !.dropped = (@ \cup (k.may \cap live)) \ may2]]

\* ---- encapsulation
EncapsV(g, k, pol) ==
    LET m == g.mpks[k]
    IN V(/\ EncPolValid(m.st, m.attrs, pol)
         /\ \A i \in 1..Len(pol) : ClauseCombo(m.st, m.attrs, pol[i]) \in DOMAIN m.keys)
EncTargets(g, k, pol) ==
    LET m == g.mpks[k]
    IN {[c |-> ClauseCombo(m.st, m.attrs, pol[i]),
         t |-> m.keys[ClauseCombo(m.st, m.attrs, pol[i])].t] : i \in 1..Len(pol)}
EncHyb(g, k, pol) ==
    LET m == g.mpks[k]
    IN \A i \in 1..Len(pol) : m.keys[ClauseCombo(m.st, m.attrs, pol[i])].h
Encaps(g, e, k, pol) ==
    [g EXCEPT !.enc = Without(@, {e}) @@ (e :> [tg |-> EncTargets(g, k, pol), tgx |-> EncTargets(g, k, pol),
                               h |-> EncHyb(g, k, pol), recaps |-> FALSE])]

\* ---- re-encapsulation with the master key (C18)
\* targets whose secret the master key still holds
Recoverable(g, e) == {x \in g.enc[e].tg : x.c \in DOMAIN g.msk /\ x.t \in ChainToks(g.msk[x.c])}
\* ... and still marks as usable for encryption
ActiveTok(g, x) == \E i \in 1..Len(g.msk[x.c]) : g.msk[x.c][i].t = x.t /\ g.msk[x.c][i].a
\* rights the result certainly targets / may target (statement is silent on
\* secrets of rights disabled since, re-encapsulated under an older public key)
RecapsSure(g, k, e) == {x \in Recoverable(g, e) : ActiveTok(g, x) /\ x.c \in DOMAIN g.mpks[k].keys}
RecapsMay(g, k, e) == {x \in Recoverable(g, e) : x.c \in DOMAIN g.mpks[k].keys}
\* "it fails when none of the original rights can be recovered": nothing to open, or -- since the new
\* encapsulation targets exactly the rights that can still be opened AND are published -- nothing of
\* what can be opened is published by that key (an encapsulation for no right at all would carry a
\* secret nobody can ever open; the documented result is "the same rights as the one given").
RecapsV(g, k, e) ==
    IF Recoverable(g, e) = {} THEN "err"
    ELSE IF RecapsSure(g, k, e) # {} THEN "ok"
    ELSE IF RecapsMay(g, k, e) = {} THEN "err"
    ELSE "any"
Recaps(g, e2, k, e) ==
    LET tgOf(S) == {[c |-> x.c, t |-> g.mpks[k].keys[x.c].t] : x \in S}
    IN [g EXCEPT !.enc = Without(@, {e2}) @@
                     (e2 :> [tg |-> tgOf(RecapsSure(g, k, e)), tgx |-> tgOf(RecapsMay(g, k, e)),
                             h |-> \A x \in RecapsSure(g, k, e) : g.mpks[k].keys[x.c].h,
                             recaps |-> TRUE])]

\* ---- snapshots of the master key (C17: valid MAC, unknown identifier)
SaveMsk(g, slot) ==
    [g EXCEPT !.saved = Without(@, {slot}) @@
                 (slot :> [st |-> g.st, attrs |-> g.attrs, msk |-> g.msk, known |-> g.known])]
RestoreMsk(g, slot) ==
    LET s == g.saved[slot]
    IN [g EXCEPT !.st = s.st,
                 !.attrs = [u \in DOMAIN g.attrs |-> IF u \in DOMAIN s.attrs THEN s.attrs[u] ELSE g.attrs[u]],
                 !.msk = s.msk, !.known = s.known]

(***************************************************************************)
(* Expected decapsulation verdicts                                         *)
(***************************************************************************)
EncToks(g, e) == {x.t : x \in g.enc[e].tg}
EncToksX(g, e) == {x.t : x \in g.enc[e].tgx}
MustOpen(g, u, e) == EncToks(g, e) \cap g.usk[u].must # {}
MustNotOpen(g, u, e) == EncToksX(g, e) \cap g.usk[u].may = {}

\* well-formedness of the reference state itself: what a key is obliged to be able to use is allowed to it
GhostWF(g) == \A u \in DOMAIN g.usk : g.usk[u].must \subseteq g.usk[u].may /\ g.usk[u].grant \subseteq g.usk[u].grant0

\* why may key u not use target x of an encapsulation (for attribution)
Reason(g, u, x) ==
    LET k == g.usk[u]
    IN IF x.t \in k.may THEN "allowed"
       ELSE IF x.c \notin k.grant0 THEN "notgranted"
       ELSE IF x.t \in k.lost THEN "removed"
       ELSE IF x.t \in k.dropped THEN "nokeep"
       ELSE IF x.t >= k.asof THEN "stale"
       ELSE IF x.c \notin k.grant THEN "removed"
       ELSE "old"
Reasons(g, u, e) == {Reason(g, u, x) : x \in g.enc[e].tgx}

\* secrets certainly usable by u given the observed "same" verdicts on opened
UsableFrom(g, u, opened) ==
    {t \in g.usk[u].may : \E e \in opened : EncToksX(g, e) \cap g.usk[u].may = {t}}

=============================================================================
