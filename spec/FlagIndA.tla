------------------------------ MODULE FlagIndA ------------------------------
EXTENDS FlagInd, Apalache
CFixed == Variant = "fixed"
CReact == Variant = "rekey_reactivates"
IndInit == act = Gen(6) /\ dis \in BOOLEAN /\ applied \in BOOLEAN /\ published \in BOOLEAN /\ IndInv
\* must be VIOLATED: the generated states include an applied disable with a long chain
Sanity == ~(applied /\ Len(act) >= 4)
=============================================================================
