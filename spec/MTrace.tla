------------------------------- MODULE MTrace -------------------------------
(***************************************************************************)
(* Conformance of the implementation-shaped model (Covercrypt.tla) on       *)
(* executions observed on the real library: the classic trace validation.   *)
(*                                                                          *)
(* Every logged call is replayed through the model's own action with the    *)
(* logged arguments; the model's result, its decapsulation matrix and the   *)
(* shapes of its master / user keys are then compared with what was         *)
(* logged.  A difference is MODEL DRIFT: the code no longer behaves like    *)
(* the model (or the model is wrong).  It is reported, it never decides a   *)
(* property.  After a drift, or once two attributes share an identifier     *)
(* (finding F-ALIAS: the reference specification running next to the model  *)
(* cannot follow such histories), the rest of the history is skipped.       *)
(***************************************************************************)
EXTENDS Covercrypt, Json, IOUtils

Rec == ndJsonDeserialize(IOEnv.TRACE)

VARIABLES l,       \* next line
          on,      \* FALSE while the rest of a history is skipped
          drift,   \* collected drift records
          fp,      \* (model secret, logged fingerprint) pairs of the history so far
          cnt      \* [histories, steps, matched, skipped]
tvars == <<vars, l, on, drift, fp, cnt>>

AllOps == {"AddAttr", "AddDim", "Clone", "DelAttr", "DelDim", "Disable", "DropEnc", "DropUsk", "Encaps", "KeyGen", "Mpk",
           "Prune", "Recaps", "Refresh", "Rekey", "Rename", "Restore", "RoundTrip", "Save", "Update"}
NoScript == <<>>
NoKind == <<>>

Has(r, f) == f \in DOMAIN r
Get(r, f, dflt) == IF f \in DOMAIN r THEN r[f] ELSE dflt

TInit == /\ Init
         /\ l = 1
         /\ on = TRUE
         /\ drift = {}
         /\ fp = {}
         /\ cnt = [histories |-> 0, steps |-> 0, matched |-> 0, skipped |-> 0]

\* update_msk collects the rights into a HashMap: where two selections reach one right (aliasing), any
\* candidate may win.  The logged master key tells which one did; the model is resolved accordingly
\* (and arbitrarily if no candidate explains the log: that is then reported as drift).
WinFor(ev, r, C) ==
    LET want == IF Has(ev, "msk") /\ ev.res = "ok" THEN {y \in {ev.msk.rights[i] : i \in 1..Len(ev.msk.rights)} : y.r = r} ELSE {}
        Fits(x) == IF r \in DOMAIN msk
                   THEN LET ta == IF want = {} THEN msk[r][1].a ELSE (CHOOSE y \in want : TRUE).ch[1].a
                            th == IF want = {} THEN msk[r][1].h ELSE (CHOOSE y \in want : TRUE).ch[1].h
                        IN x.a = ta /\ (msk[r][1].h /\ x.h) = th
                   ELSE IF want = {} THEN x.a = (ev.res = "ok")
                        ELSE x.a /\ x.h = (CHOOSE y \in want : TRUE).ch[1].h
        G == {x \in C : Fits(x)}
    IN IF G # {} THEN CHOOSE x \in G : TRUE ELSE CHOOSE x \in C : TRUE

\* the model action for a logged call
Act(ev) ==
    CASE ev.op = "add_dim" -> AddDimK(ev.d, ev.kind)
      [] ev.op = "del_dim" -> DelDimA(ev.d)
      [] ev.op = "add_attr" -> AddAttrA(ev.d, ev.n, ev.hint, Get(ev, "after", ""))
      [] ev.op = "del_attr" -> DelAttrA(ev.d, ev.n)
      [] ev.op = "rename" -> RenameA(ev.d, ev.n, ev.to)
      [] ev.op = "disable" -> DisableA(ev.d, ev.n)
      [] ev.op = "update" -> UpdateWith(LAMBDA r, C : WinFor(ev, r, C))
      [] ev.op = "rekey" -> RekeyA(ev.pol)
      [] ev.op = "prune" -> PruneA(ev.pol)
      [] ev.op = "mpk" -> MpkA
      [] ev.op = "keygen" -> KeyGenA(ev.u, ev.pol)
      [] ev.op = "refresh" -> RefreshA(ev.u, ev.keep)
      [] ev.op = "clone_usk" -> CloneA(ev.u, ev.from)
      [] ev.op = "drop_usk" -> DropUskA(ev.u)
      [] ev.op = "drop_enc" -> DropEncA(ev.e)
      [] ev.op = "encaps" -> EncapsA(ev.e, ev.mpk, ev.pol)
      [] ev.op = "recaps" -> RecapsA(ev.e, ev.mpk, ev.from)
      [] ev.op = "save_msk" -> SaveSlotA(ev.slot)
      [] ev.op = "restore_msk" -> RestoreSlotA(ev.slot)

\* calls the model has no action for (no effect on its state): headers, round trips, observations
\* (also: a failed encapsulation under a broadcast written "(*) || (X)", whose operand X the parser
\* resolves although it does not matter -- the logged policy [[]] does not say which X)
Passive(ev) == \/ ev.op \in {"header", "roundtrip", "observe"}
               \/ Has(ev, "parse_error")
               \/ ev.op = "encaps" /\ ev.res # "ok" /\ Has(ev, "src") /\ ev.src # "*" /\ ev.pol = <<<<>>>>

\* can the model take the call at all (its actions have enabling conditions on handles)
Takes(ev) ==
    CASE ev.op = "keygen" -> ev.u \notin DOMAIN usk
      [] ev.op = "refresh" -> ev.u \in DOMAIN usk
      [] ev.op = "clone_usk" -> ev.from \in DOMAIN usk /\ ev.u \notin DOMAIN usk
      [] ev.op = "drop_usk" -> ev.u \in DOMAIN usk
      [] ev.op = "drop_enc" -> ev.e \in DOMAIN encs
      [] ev.op = "encaps" -> ev.e \notin DOMAIN encs /\ ev.mpk \in 1..Len(mpks)
      [] ev.op = "recaps" -> ev.from \in DOMAIN encs /\ ev.e \notin DOMAIN encs /\ ev.mpk \in 1..Len(mpks)
      [] ev.op = "restore_msk" -> ev.slot \in DOMAIN saved
      [] ev.op \in {"rekey", "prune", "keygen"} -> TRUE
      [] OTHER -> TRUE

\* ---- what the model predicts vs what was logged
SeqSet(q) == {q[i] : i \in 1..Len(q)}
ObsSame(ev) == {<<x.u, x.e>> : x \in {y \in SeqSet(ev.opens) : y.r = "same"}}

\* access structure: hierarchies in rank order, anarchies as sets
StDim(S, d) == IF S[d].kind = "H" THEN <<"H", S[d].attrs>> ELSE <<"A", SeqSet(S[d].attrs)>>
StOf(S) == {<<d, StDim(S, d)>> : d \in DOMAIN S}
LoggedSt(q) == {<<x.d, IF x.kind = "H" THEN <<"H", x.attrs>> ELSE <<"A", SeqSet(x.attrs)>>>> : x \in SeqSet(q)}

\* master key: right -> sequence of <<hybridised, activated>>, and (model secret, logged fingerprint) pairs
Flags(ch) == [j \in 1..Len(ch) |-> <<ch[j].h, ch[j].a>>]
MskFlags(m) == {<<r, Flags(m[r])>> : r \in DOMAIN m}
LoggedMskFlags(q) == {<<x.r, Flags(x.ch)>> : x \in SeqSet(q)}
MskPairs(m, q) == UNION {{<<m[x.r][j].sid, x.ch[j].s>> : j \in 1..Len(x.ch)} : x \in {y \in SeqSet(q) : y.r \in DOMAIN m /\ Len(y.ch) = Len(m[y.r])}}

\* user key: right -> sequence of hybridised flags, and pairs
UFlags(c) == [j \in 1..Len(c) |-> c[j].h]
UskFlags(k) == {<<x.r, UFlags(x.c)>> : x \in SeqSet(k.ch)}
UskPairs(k, q) == UNION {{<<x.c[j].sid, y.c[j].s>> : j \in 1..Len(x.c)}
                         : <<x, y>> \in {p \in SeqSet(k.ch) \X SeqSet(q.ch) : p[1].r = p[2].r /\ Len(p[1].c) = Len(p[2].c)}}

\* public key: right -> hybridised, and pairs (secret, fingerprint of the public point)
MpkFlags(k) == {<<r, k.keys[r].h>> : r \in DOMAIN k.keys}
LoggedMpkFlags(q) == {<<x.r, x.h>> : x \in SeqSet(q.keys)}

Injective(P) == \A p, q \in P : (p[1] = q[1]) <=> (p[2] = q[2])
NewPairs(ev) ==
    (IF Has(ev, "msk") THEN MskPairs(msk', ev.msk.rights) ELSE {})
    \cup (IF Has(ev, "uskv") /\ Has(ev, "u") /\ ev.u \in DOMAIN usk' THEN UskPairs(usk'[ev.u], ev.uskv) ELSE {})
PairsOk(ev) == LET N == NewPairs(ev) \ fp
               IN \A p \in N : \A q \in fp \cup N : (p[1] = q[1]) <=> (p[2] = q[2])

Differences(ev) ==
    (IF res' # (IF ev.res = "ok" THEN "ok" ELSE "err") THEN {"result"} ELSE {})
    \cup (IF Has(ev, "opens") /\ obs' # ObsSame(ev) THEN {"decapsulation matrix"} ELSE {})
    \cup (IF Has(ev, "msk")
          THEN (IF StOf(st') # LoggedSt(ev.msk.st) THEN {"access structure (names, identifiers, hints, status, order)"} ELSE {})
               \cup (IF {x[1] : x \in MskFlags(msk')} # {x[1] : x \in LoggedMskFlags(ev.msk.rights)} THEN {"rights of the master key"}
                     ELSE IF MskFlags(msk') # LoggedMskFlags(ev.msk.rights) THEN {"master key chains (length, flavour, activation)"} ELSE {})
               \cup (IF Cardinality(users') # Len(ev.msk.users) THEN {"known user identifiers"} ELSE {})
          ELSE IF <<st', msk', users'>> # <<st, msk, users>> THEN {"master key changed in the model only"} ELSE {})
    \cup (IF Has(ev, "uskv") /\ Has(ev, "u") /\ ev.u \in DOMAIN usk' /\ UskFlags(usk'[ev.u]) # {<<x.r, UFlags(x.c)>> : x \in SeqSet(ev.uskv.ch)}
          THEN {"user key (rights, chain lengths, flavours)"} ELSE {})
    \cup (IF Has(ev, "mpkv") /\ ev.res = "ok" /\ ev.op \in {"update", "rekey", "prune", "mpk"}
             /\ (Len(mpks') # ev.mpk \/ MpkFlags(mpks'[Len(mpks')]) # LoggedMpkFlags(ev.mpkv) \/ StOf(mpks'[Len(mpks')].st) # LoggedSt(ev.mpkv.st))
          THEN {"published key (rights, flavours, structure)"} ELSE {})
    \cup (IF ~PairsOk(ev) THEN {"identity of secrets (a secret of the model corresponds to two of the library or conversely)"} ELSE {})

Step(ev) ==
    /\ Act(ev)
    /\ pc' = pc
    /\ ObsUpd
    /\ LET d == Differences(ev)
       IN /\ drift' = IF d = {} THEN drift ELSE drift \cup {[line |-> l, op |-> ev.op, what |-> d]}
          /\ on' = (d = {})
          /\ fp' = IF d = {} THEN fp \cup NewPairs(ev) ELSE fp
          /\ cnt' = [cnt EXCEPT !.steps = @ + 1, !.matched = @ + (IF d = {} THEN 1 ELSE 0)]

SkipLine == /\ UNCHANGED <<vars, on, drift, fp>>
            /\ cnt' = [cnt EXCEPT !.skipped = @ + 1]

ResetAll ==
    /\ st' = EmptyFn /\ msk' = (<<>> :> <<[sid |-> 1, h |-> FALSE, a |-> TRUE]>>) /\ nsid' = 2 /\ nid' = 0
    /\ mpks' = <<[keys |-> (<<>> :> [sid |-> 1, h |-> FALSE]), st |-> EmptyFn]>>
    /\ usk' = EmptyFn /\ users' = {} /\ nuid' = 1 /\ encs' = EmptyFn /\ res' = "ok" /\ lnk' = {<<1, 1>>}
    /\ idu' = EmptyFn /\ g' = GInit /\ bad' = {} /\ last' = [op |-> "init"] /\ pc' = pc /\ obs' = {} /\ saved' = EmptyFn
    /\ on' = TRUE /\ drift' = drift /\ fp' = {}
    /\ cnt' = [cnt EXCEPT !.histories = @ + 1]

TNext ==
    \/ /\ l <= Len(Rec)
       /\ l' = l + 1
       /\ LET ev == Rec[l]
          IN IF ev.k = "reset" THEN ResetAll
             ELSE IF ~on \/ ev.res \in {"skip", "hang", "panic"} \/ Passive(ev) THEN SkipLine
             ELSE IF ~Takes(ev) THEN /\ UNCHANGED <<vars, drift, fp>>
                                     /\ on' = FALSE
                                     /\ cnt' = [cnt EXCEPT !.skipped = @ + 1]
             ELSE Step(ev)
    \/ /\ l = Len(Rec) + 1
       /\ l' = l + 1
       /\ \A x \in drift : PrintT(<<"MTRACE-DRIFT", ToJson(x)>>)
       /\ PrintT(<<"MTRACE-DONE", Len(Rec), ToJson(cnt), Cardinality(drift)>>)
       /\ UNCHANGED <<vars, on, drift, fp, cnt>>

TSpec == TInit /\ [][TNext]_tvars
=============================================================================
