------------------------------ MODULE ChainOps ------------------------------
(***************************************************************************)
(* The chain arithmetic of refresh_coordinate_keys (primitives.rs, after   *)
(* commit c766bd3), on sequences of any element type.  Shared by the       *)
(* lifecycle model (Covercrypt.tla: TLC, bounded histories) and by the     *)
(* inductive argument (ChainInd.tla: Apalache, all histories of one right).*)
(* Written without recursion so that Apalache accepts it.                  *)
(***************************************************************************)
EXTENDS Integers, Sequences

\* length of the longest common prefix
\* @type: (Seq(a), Seq(a)) => Int;
CPLen(a, b) ==
    LET K == {k \in (DOMAIN a) \union {0} : k <= Len(b) /\ \A i \in DOMAIN a : i <= k => a[i] = b[i]}
    IN CHOOSE k \in K : \A j \in K : j <= k

\* position of x in s (0 if absent; s has no duplicates where it matters)
\* @type: (Seq(a), a) => Int;
PosIn(s, x) ==
    LET P == {i \in DOMAIN s : s[i] = x}
    IN IF P = {} THEN 0 ELSE CHOOSE i \in P : \A j \in P : i <= j

\* refresh with "keep old secrets": uc = the user's chain, ms = the master chain (both newest first).
\*  - the user's newest secret is no longer in the master chain: the user gets the whole master chain;
\*  - otherwise: everything newer than it, itself, and the user's older secrets as long as they follow
\*    the master chain.
\* @type: (Seq(a), Seq(a)) => Seq(a);
RefreshKeepChain(uc, ms) ==
    LET p == PosIn(ms, uc[1])
    IN IF p = 0 THEN ms
       ELSE LET rest == SubSeq(ms, p + 1, Len(ms))
                c == CPLen(Tail(uc), rest)
            IN SubSeq(ms, 1, p) \o SubSeq(rest, 1, c)
=============================================================================
