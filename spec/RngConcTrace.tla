---------------------------- MODULE RngConcTrace ----------------------------
(* Validation of lock events observed on the real library (forced schedules  *)
(* generated from RngConc.tla, and free-running stress) -- see RngConc.tla.  *)
EXTENDS RngCalls, Sequences, FiniteSets, TLC

(***************************************************************************)
(* check mode: observed lock events                                        *)
(*   [k: "run", programs, schedule, forced] starts a run,                  *)
(*   [k: "ev", t, ev: "acq"|"rel"|"reentrant", seq, call, sect]            *)
(*   [k: "end", ok: all calls returned what they return alone, hang,       *)
(*    fresh_total, fresh_distinct]                                         *)
(***************************************************************************)
Obs == ndJsonDeserialize(IOEnv.TRACE)
VARIABLES l, held, lastseq, acqs, prog, want, bad, runs
tvars == <<l, held, lastseq, acqs, prog, want, bad, runs>>
TInit == /\ l = 1 /\ held = 0 /\ lastseq = 0 /\ acqs = <<>> /\ prog = <<>> /\ want = <<>> /\ bad = {} /\ runs = 0
Flag(what) == bad' = bad \cup {[what |-> what, line |-> l, run |-> runs]}
TNext ==
    \/ /\ l <= Len(Obs)
       /\ l' = l + 1
       /\ LET o == Obs[l]
          IN CASE o.k = "run" ->
                    /\ held' = 0 /\ lastseq' = 0 /\ acqs' = <<>> /\ prog' = o.programs
                    /\ want' = IF o.forced THEN o.schedule ELSE <<>>
                    /\ runs' = runs + 1 /\ UNCHANGED bad
               [] o.k = "ev" /\ o.ev = "acq" ->
                    /\ held' = o.t /\ lastseq' = o.seq /\ acqs' = Append(acqs, o.t)
                    /\ IF held # 0 THEN Flag("two threads inside the RNG lock")
                       ELSE IF o.seq <= lastseq THEN Flag("lock sequence number not increasing")
                       \* (structure, not property: reported as drift by the driver)
                       ELSE IF o.sect > Sections(o.call) THEN Flag("DRIFT: a call took more lock sections than when it runs alone")
                       ELSE UNCHANGED bad
                    /\ UNCHANGED <<prog, want, runs>>
               [] o.k = "ev" /\ o.ev = "rel" ->
                    /\ held' = 0
                    /\ IF held # o.t THEN Flag("release by a thread that does not hold the lock") ELSE UNCHANGED bad
                    /\ UNCHANGED <<lastseq, acqs, prog, want, runs>>
               [] o.k = "ev" /\ o.ev = "reentrant" ->
                    /\ Flag("a thread tried to take the RNG lock while holding it")
                    /\ UNCHANGED <<held, lastseq, acqs, prog, want, runs>>
               [] o.k = "end" ->
                    /\ IF o.hang THEN Flag("a call did not return")
                       ELSE IF ~o.ok THEN Flag("a call returned something else than it returns alone")
                       ELSE IF o.fresh_distinct # o.fresh_total THEN Flag("values drawn by concurrent calls collide")
                       ELSE IF want # <<>> /\ acqs # want THEN Flag("DRIFT: the enumerated schedule could not be realised on the real threads")
                       ELSE IF held # 0 THEN Flag("lock still held at the end")
                       ELSE UNCHANGED bad
                    /\ UNCHANGED <<held, lastseq, acqs, prog, want, runs>>
               [] o.k = "fresh" ->          \* C16: long runs of identical calls
                    /\ IF o.distinct # o.total THEN Flag("two calls produced the same value")
                       ELSE IF o.total # o.expected THEN Flag("a rekey did not publish the expected number of new values")
                       ELSE IF o.opened > 0 THEN Flag("encrypted metadata opens with the secret handed to the caller")
                       ELSE IF o.category = "failed" THEN Flag("a call failed")
                       ELSE UNCHANGED bad
                    /\ runs' = runs + 1
                    /\ UNCHANGED <<held, lastseq, acqs, prog, want>>
               [] OTHER -> UNCHANGED <<held, lastseq, acqs, prog, want, bad, runs>>
    \/ /\ l = Len(Obs) + 1
       /\ l' = l + 1
       /\ \A b \in bad : PrintT(<<"VIOL", b.line, b.what, ToJson(b)>>)
       /\ PrintT(<<"CHECK-DONE", Len(Obs), Cardinality(bad), runs>>)
       /\ UNCHANGED <<held, lastseq, acqs, prog, want, bad, runs>>
SpecTrace == TInit /\ [][TNext]_tvars
=============================================================================
