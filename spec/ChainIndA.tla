----------------------------- MODULE ChainIndA ------------------------------
(* Apalache wrapper of ChainInd: an arbitrary state satisfying the invariant  *)
(* (chains of up to 6 secrets), for the inductive step.                       *)
EXTENDS ChainInd, Apalache

CFixed == Variant = "fixed"
CStale == Variant = "stale_kept"
\* must be VIOLATED (shows that action properties are evaluated): pruned secrets are dropped by a keep-refresh
SanityAct == (last' = "refresh_keep") => Elems(u) \subseteq Elems(u')

IndInit ==
    /\ m = Gen(6)
    /\ u = Gen(6)
    /\ next = Gen(1)
    /\ last = "init"
    /\ IndInv
\* sanity (must be VIOLATED): the generated states include long chains, keys holding pruned secrets, lagging keys
Sanity1 == ~(Len(m) >= 4 /\ Len(u) >= 3 /\ u[1] < m[2] /\ \E x \in Elems(u) : x \notin Elems(m))
=============================================================================
