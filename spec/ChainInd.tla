------------------------------ MODULE ChainInd ------------------------------
(***************************************************************************)
(* C04 / C05 for ALL histories of one right: an inductive invariant of the *)
(* chain discipline, discharged by Apalache (and cross-checked by TLC on   *)
(* the reachable states of small instances).                               *)
(*                                                                         *)
(* One right.  Secrets are integers from a counter (newest = largest).     *)
(*   m : the master key's chain, newest first                              *)
(*   u : one user key's chain for that right, newest first                 *)
(* Actions: Rekey (prepend a fresh secret), Prune (keep the newest only),  *)
(* RefreshKeep / RefreshNoKeep (ChainOps), in any order, for ever.         *)
(***************************************************************************)
EXTENDS Integers, Sequences, FiniteSets, ChainOps

CONSTANT
    \* "fixed": the code as it is; "stale_kept": the defect repaired by commit c766bd3 (a user secret that
    \* the master key no longer holds is kept behind the master chain), for the self-test
    \* @type: Str;
    Variant

VARIABLES
    \* @type: Seq(Int);
    m,
    \* @type: Seq(Int);
    u,
    \* @type: Int;
    next,
    \* @type: Str;
    last

vars == <<m, u, next, last>>

\* @type: (Seq(Int)) => Set(Int);
Elems(s) == {s[i] : i \in DOMAIN s}
\* @type: (Seq(Int)) => Bool;
Decreasing(s) == \A i \in DOMAIN s : \A j \in DOMAIN s : i < j => s[i] > s[j]

Init ==
    /\ m = <<1>>
    /\ u = <<1>>
    /\ next = 2
    /\ last = "init"

Rekey ==
    /\ m' = <<next>> \o m
    /\ next' = next + 1
    /\ last' = "rekey"
    /\ UNCHANGED u

Prune ==
    /\ m' = <<m[1]>>
    /\ last' = "prune"
    /\ UNCHANGED <<u, next>>

RefreshKeep ==
    /\ u' = IF Variant = "stale_kept" /\ PosIn(m, u[1]) = 0 THEN m \o <<u[1]>> ELSE RefreshKeepChain(u, m)
    /\ last' = "refresh_keep"
    /\ UNCHANGED <<m, next>>

RefreshNoKeep ==
    /\ u' = <<m[1]>>
    /\ last' = "refresh_nokeep"
    /\ UNCHANGED <<m, next>>

\* usk_keygen for this right: the newest secret only
KeyGen ==
    /\ u' = <<m[1]>>
    /\ last' = "keygen"
    /\ UNCHANGED <<m, next>>

Next == Rekey \/ Prune \/ RefreshKeep \/ RefreshNoKeep \/ KeyGen

(***************************************************************************)
(* The inductive invariant.                                                *)
(*  - both chains are non-empty, strictly decreasing, below the counter;   *)
(*  - WINDOW: between the user's newest and oldest secret the user holds   *)
(*    every secret the master key holds (the user chain has no holes with  *)
(*    respect to the master chain);                                        *)
(*  - NOFUTURE: the user never holds a secret newer than the master's      *)
(*    newest;                                                              *)
(*  - ONCEGONE: a secret of the user that the master key no longer holds   *)
(*    is older than every secret the master key holds except its newest    *)
(*    ... (pruned secrets are older than what survived the prune).         *)
(***************************************************************************)
TypeOK ==
    /\ Len(m) >= 1 /\ Len(u) >= 1
    /\ next >= 2
    /\ \A i \in DOMAIN m : m[i] >= 1 /\ m[i] < next
    /\ \A i \in DOMAIN u : u[i] >= 1 /\ u[i] < next

Window == \A x \in Elems(m) : (x <= u[1] /\ x >= u[Len(u)]) => x \in Elems(u)
NoFuture == u[1] <= m[1]
\* a secret the user holds and the master does not was pruned: it is older than every master secret but the newest
OnceGone == \A x \in Elems(u) : x \notin Elems(m) => \A i \in DOMAIN m : i > 1 => x < m[i]
IndInv == TypeOK /\ Decreasing(m) /\ Decreasing(u) /\ Window /\ NoFuture /\ OnceGone

(***************************************************************************)
(* What C04 / C05 say about a refresh, as properties of the step           *)
(***************************************************************************)
\* C04: after a refresh the key holds the newest secret
Follows == last \in {"refresh_keep", "refresh_nokeep", "keygen"} => u[1] = m[1]
\* C05: after a refresh the key holds nothing the master key no longer holds
NothingRevoked == last \in {"refresh_keep", "refresh_nokeep"} => Elems(u) \subseteq Elems(m)
\* C04 no-keep: exactly the newest
OnlyNewest == last = "refresh_nokeep" => u = <<m[1]>>
\* after a keep-refresh the key is a PREFIX of the master chain
Prefix == last = "refresh_keep" => (Len(u) <= Len(m) /\ \A i \in DOMAIN u : u[i] = m[i])
Post == Follows /\ NothingRevoked /\ OnlyNewest /\ Prefix

\* C04 keep: everything the key could open before and the master key still holds, it still holds
\* (action property)
KeepsUsable == (last' = "refresh_keep") => (Elems(u) \intersect Elems(m)) \subseteq Elems(u')


\* for TLC: the reachable states of a bounded instance (cross-check of the inductive argument)
Spec == Init /\ [][Next]_vars
Bounded == next <= 8
StepOk == [][KeepsUsable]_vars
=============================================================================
