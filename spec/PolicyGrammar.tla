--------------------------- MODULE PolicyGrammar ---------------------------
(***************************************************************************)
(* C15: reference semantics of the documented policy grammar, used as a    *)
(* GENERATOR (the abstract syntax tree is known by construction, so no     *)
(* recogniser is needed) and as the ORACLE of the observed results.        *)
(*                                                                         *)
(*   access_policy: [ attribute | group [ operator access_policy ]]        *)
(*   operator: || | &&      group: ( access_policy )      "*" = broadcast  *)
(*   precedence: parentheses, then AND, then OR                            *)
(*                                                                         *)
(* Mode "gen"  : prints one case per (formula, printing) as JSON:          *)
(*               tokens, the formula, its reference truth table.           *)
(* Mode "check": reads the cases back with what the real parser produced   *)
(*               (truth table of to_dnf(), leaf names) and judges them.    *)
(***************************************************************************)
EXTENDS Naturals, Sequences, FiniteSets, TLC, Json, IOUtils

CONSTANTS NAttr,      \* number of distinct attributes (truth assignments: 2^NAttr)
          MaxLeaves   \* size bound of the formulas

Mode == IF "MODE" \in DOMAIN IOEnv THEN IOEnv.MODE ELSE "gen"

Leaf(i) == [t |-> "leaf", a |-> i]
RECURSIVE Asts(_)
Asts(n) == IF n = 1 THEN {Leaf(i) : i \in 1..NAttr}
           ELSE UNION {{[t |-> op, l |-> x, r |-> y] : op \in {"and", "or"}, x \in Asts(k), y \in Asts(n - k)}
                       : k \in 1..(n - 1)}
AllAsts == UNION {Asts(n) : n \in 1..MaxLeaves}

\* truth assignments as subsets of 1..NAttr (the attributes that are true)
Assignments == SUBSET (1..NAttr)
RECURSIVE Eval(_, _)
Eval(a, s) == CASE a.t = "leaf" -> a.a \in s
                [] a.t = "and" -> Eval(a.l, s) /\ Eval(a.r, s)
                [] a.t = "or" -> Eval(a.l, s) \/ Eval(a.r, s)
                [] a.t = "star" -> TRUE
\* truth table as the set of satisfying assignments, each a sorted sequence (for JSON)
RECURSIVE SeqOf(_)
SeqOf(S) == IF S = {} THEN <<>> ELSE LET m == CHOOSE x \in S : \A y \in S : x <= y IN <<m>> \o SeqOf(S \ {m})
Table(a) == {SeqOf(s) : s \in {x \in Assignments : Eval(a, x)}}

\* printings: token sequences
Name(i) == "A" \o ToString(i)
Wrap(s) == <<"(">> \o s \o <<")">>
NeedsParens(parent, child) == parent = "and" /\ child.t = "or"
RECURSIVE Minimal(_)
Minimal(a) == IF a.t = "leaf" THEN <<Name(a.a)>>
              ELSE LET l == Minimal(a.l)
                       r == Minimal(a.r)
                   IN (IF NeedsParens(a.t, a.l) THEN Wrap(l) ELSE l)
                      \o <<IF a.t = "and" THEN "&&" ELSE "||">>
                      \o (IF NeedsParens(a.t, a.r) THEN Wrap(r) ELSE r)
RECURSIVE Full(_)
Full(a) == IF a.t = "leaf" THEN <<Name(a.a)>>
           ELSE Wrap(Full(a.l) \o <<IF a.t = "and" THEN "&&" ELSE "||">> \o Full(a.r))
\* redundant parentheses around every leaf and every right operand
RECURSIVE Redundant(_)
Redundant(a) == IF a.t = "leaf" THEN Wrap(<<Name(a.a)>>)
                ELSE LET l == Redundant(a.l)
                         r == Redundant(a.r)
                     IN (IF NeedsParens(a.t, a.l) THEN Wrap(l) ELSE l)
                        \o <<IF a.t = "and" THEN "&&" ELSE "||">>
                        \o Wrap(r)
Printings(a) == {Minimal(a), Full(a), Wrap(Minimal(a)), Redundant(a)}

Case(a, p) == [ast |-> a, tokens |-> p, table |-> Table(a), leaves |-> NAttr]

\* the alphabet of the totality domain (every string over it up to a length bound is parsed)
Alphabet == <<"(", ")", "&&", "||", "&", "|", "::", ":", "A", "é", " ", "*">>

\* the broadcast "*" as an operand (only legal as the last token or inside its own parentheses)
Star == [t |-> "star"]
SmallAsts == UNION {Asts(n) : n \in 1..2}
StarCases == UNION {{ Case([t |-> "or", l |-> a, r |-> Star], Wrap(Minimal(a)) \o <<"||", "*">>),
                      Case([t |-> "and", l |-> a, r |-> Star], Wrap(Minimal(a)) \o <<"&&", "*">>),
                      Case([t |-> "or", l |-> Star, r |-> a], <<"(", "*", ")", "||">> \o Wrap(Minimal(a))),
                      Case([t |-> "and", l |-> Star, r |-> a], <<"(", "*", ")", "&&">> \o Wrap(Minimal(a))),
                      Case([t |-> "or", l |-> a, r |-> Star], Minimal(a) \o <<"||", "(", "*", ")">>) } : a \in SmallAsts}

Gen == /\ \A a \in AllAsts : \A p \in Printings(a) : PrintT(<<"CASE", ToJson(Case(a, p))>>)
       /\ \A c \in StarCases : PrintT(<<"CASE", ToJson(c)>>)
       /\ PrintT(<<"CASE", ToJson([ast |-> [t |-> "star"], tokens |-> <<"*">>, table |-> Table([t |-> "star"]), leaves |-> NAttr])>>)
       /\ PrintT(<<"ALPHABET", ToJson(Alphabet)>>)
       /\ PrintT(<<"GEN-DONE", Cardinality(AllAsts)>>)

(***************************************************************************)
(* Check mode: every observed record                                       *)
(*   [ast, tokens, src, parsed: "ok"|"err"|"panic", obs_table, names_ok]   *)
(* is judged against the formula's own truth table, recomputed here.       *)
(***************************************************************************)
Obs == IF Mode = "check" THEN ndJsonDeserialize(IOEnv.TRACE) ELSE <<>>
AsSet(seqOfSeqs) == {seqOfSeqs[i] : i \in 1..Len(seqOfSeqs)}
Bad(i) == LET o == Obs[i]
          IN IF o.kind = "formula"
             THEN \/ o.parsed # "ok"
                  \/ AsSet(o.obs_table) # Table(o.ast)
                  \/ ~o.names_ok
             ELSE \* totality domain: the parser must have returned for every string
                  o.panics # 0
Check == /\ \A i \in 1..Len(Obs) : Bad(i) => PrintT(<<"VIOL", i, ToJson(Obs[i])>>)
         /\ PrintT(<<"CHECK-DONE", Len(Obs), Cardinality({i \in 1..Len(Obs) : Bad(i)})>>)

ASSUME IF Mode = "gen" THEN Gen ELSE Check

\* a trivial behaviour so that TLC has something to run
VARIABLE x
Init == x = 0
Next == x' = x
=============================================================================
