------------------------------ MODULE RngConc ------------------------------
(***************************************************************************)
(* C19 / C16: a scheme instance shared by several threads.                 *)
(*                                                                         *)
(* Rust's ownership makes everything except the instance RNG thread-local  *)
(* (keys are passed by & / &mut), so the only shared steps of a call are   *)
(* its LOCK SECTIONS on Covercrypt::rng.  Each API call is modelled as     *)
(* the sequence of its lock sections (api.rs, encrypted_header.rs):        *)
(*    encaps, decaps, keygen, refresh, rekey, update, recaps : 1 section   *)
(*    encrypt (PKE)             : 2 (encapsulation, then the AEAD nonce)   *)
(*    header with metadata      : 2 (encapsulation, then the AEAD nonce)   *)
(*    header without metadata   : 1                                        *)
(* -- as documented; the number of sections actually used is MEASURED on   *)
(* the tree under test (RngCalls.tla), so that a call whose lock scope was *)
(* split or merged is explored with the sections it really has.           *)
(* Inside a section the thread draws values from the CSPRNG, modelled as   *)
(* a per-instance counter.  Constant Nested names calls that would take    *)
(* their second section while still holding the first (the defect the      *)
(* comment in PkeAc::encrypt warns about); it is empty for the code as is  *)
(* and non-empty in the self-test.                                         *)
(*                                                                         *)
(*  - SpecMC : all interleavings; invariants Mutex, Fresh; no deadlock;    *)
(*             <>AllDone under weak fairness; every complete schedule is   *)
(*             printed and then FORCED on real threads by the harness.     *)
(*  - check  : lock events observed on the real library (forced schedules  *)
(*             and free-running stress) are validated line by line.        *)
(***************************************************************************)
EXTENDS RngCalls, Sequences, FiniteSets, TLC

CONSTANTS Programs,     \* sequence (one per thread) of sequences of call names
          Nested        \* set of call names taking section 2 inside section 1

Threads == 1..Len(Programs)

\* flattened list of sections of a thread: <<call index, section index>>
RECURSIVE Flatten(_, _)
Flatten(prog, i) == IF i > Len(prog) THEN <<>>
                    ELSE [k \in 1..Sections(prog[i]) |-> <<i, k>>] \o Flatten(prog, i + 1)
Secs(t) == Flatten(Programs[t], 1)

VARIABLES pc,       \* thread -> index of its next section
          holds,    \* thread -> number of sections it is inside (0/1, or 2 when nested)
          owner,    \* 0 or the thread holding the lock
          ctr,      \* the CSPRNG as a counter
          drawn,    \* thread -> sequence of values drawn
          sched,    \* acquisition order so far
          inSec     \* thread -> it is executing the body of its current section
mvars == <<pc, holds, owner, ctr, drawn, sched, inSec>>

MInit == /\ pc = [t \in Threads |-> 1]
         /\ holds = [t \in Threads |-> 0]
         /\ owner = 0
         /\ ctr = 0
         /\ drawn = [t \in Threads |-> <<>>]
         /\ sched = <<>>
         /\ inSec = [t \in Threads |-> FALSE]

Cur(t) == Secs(t)[pc[t]]
CallOf(t) == Programs[t][Cur(t)[1]]
Done(t) == pc[t] > Len(Secs(t))
AllDone == \A t \in Threads : Done(t)

\* take the lock for the next section (a nested second section is attempted while holding)
Acquire(t) ==
    /\ ~Done(t)
    /\ owner = 0                      \* std::sync::Mutex: blocks while held, even by the same thread
    /\ holds[t] = 0 \/ (CallOf(t) \in Nested /\ Cur(t)[2] = 2)
    /\ owner' = t
    /\ holds' = [holds EXCEPT ![t] = @ + 1]
    /\ LET n == Draws(CallOf(t), Cur(t)[2])
       IN /\ drawn' = [drawn EXCEPT ![t] = @ \o [i \in 1..n |-> ctr + i]]
          /\ ctr' = ctr + n
    /\ sched' = Append(sched, t)
    /\ inSec' = [inSec EXCEPT ![t] = TRUE]
    /\ UNCHANGED pc

\* leave the section; a call in Nested keeps the first section open across the second
Release(t) ==
    /\ owner = t
    /\ inSec[t]
    /\ inSec' = [inSec EXCEPT ![t] = FALSE]
    /\ LET nestedFirst == CallOf(t) \in Nested /\ Cur(t)[2] = 1 /\ Sections(CallOf(t)) = 2
       IN IF nestedFirst
          THEN /\ pc' = [pc EXCEPT ![t] = @ + 1]          \* moves on to section 2 WITHOUT releasing
               /\ UNCHANGED <<owner, holds>>
          ELSE /\ pc' = [pc EXCEPT ![t] = @ + 1]
               /\ owner' = 0
               /\ holds' = [holds EXCEPT ![t] = 0]
    /\ UNCHANGED <<ctr, drawn, sched>>

MNext == \E t \in Threads : Acquire(t) \/ Release(t)
Finished == AllDone /\ UNCHANGED mvars
SpecMC == MInit /\ [][MNext \/ Finished]_mvars /\ \A t \in Threads : WF_mvars(Acquire(t)) /\ WF_mvars(Release(t))

Mutex == \A t \in Threads : holds[t] > 0 => owner = t
AllDrawn == UNION {{drawn[t][i] : i \in 1..Len(drawn[t])} : t \in Threads}
Fresh == Cardinality(AllDrawn) = ctr /\ \A t \in Threads : \A i, j \in 1..Len(drawn[t]) : i # j => drawn[t][i] # drawn[t][j]
NoDeadlock == AllDone \/ ENABLED MNext
Terminates == <>AllDone
PrintSchedule == AllDone => PrintT(<<"SCHEDULE", ToJson([programs |-> Programs, schedule |-> sched])>>)

=============================================================================
