------------------------------ MODULE RngIndA -------------------------------
EXTENDS RngInd, Apalache
CFixed == Threads = {1, 2, 3} /\ Variant = "fixed"
CClone == Threads = {1, 2, 3} /\ Variant = "clone"
IndInit ==
    /\ owner \in Threads \union {0}
    /\ ctr = Gen(1)
    /\ total = 0
    /\ drawn = Gen(4)
    /\ copy = Gen(4)
    /\ IndInv
\* must be VIOLATED: the generated states contain threads that drew several values each
Sanity == ~(\E t1 \in Threads : \E t2 \in Threads : t1 # t2 /\ Cardinality(drawn[t1]) >= 2 /\ Cardinality(drawn[t2]) >= 2)
=============================================================================
