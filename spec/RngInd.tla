------------------------------- MODULE RngInd -------------------------------
(***************************************************************************)
(* C16 / C19 for ALL schedules and any number of calls: values drawn from  *)
(* the instance generator under its mutex are never drawn twice.           *)
(*                                                                         *)
(* The generator is a counter; a lock section draws 1..3 values while      *)
(* holding the mutex (Acquire draws, Release frees); threads loop for      *)
(* ever.  Inductive invariant: at most one holder; every value drawn so    *)
(* far is at most the counter; no value was drawn twice (the multiset of   *)
(* drawn values is a set of size counter).                                 *)
(* Variant "clone" (seeded changes C19-encaps-clone-rng, C16-encrypt-nonce-*)
(* from-rng-clone): a section works on a COPY of the generator taken       *)
(* without the mutex and writes the copy back afterwards -- the self-test. *)
(***************************************************************************)
EXTENDS Integers, FiniteSets

CONSTANTS
    \* @type: Set(Int);
    Threads,
    \* @type: Str;
    Variant

VARIABLES
    \* @type: Int;
    owner,          \* 0 or the thread inside a lock section
    \* @type: Int;
    ctr,            \* the generator
    \* @type: Int -> Set(Int);
    drawn,          \* values each thread drew
    \* @type: Int;
    total,          \* number of values drawn so far (ghost)
    \* @type: Int -> Int;
    copy            \* variant "clone": the thread's private copy of the generator (-1: none)

vars == <<owner, ctr, drawn, total, copy>>

Init ==
    /\ owner = 0
    /\ ctr = 0
    /\ drawn = [t \in Threads |-> {}]
    /\ total = 0
    /\ copy = [t \in Threads |-> -1]

\* a lock section of thread t drawing n values
Section(t, n) ==
    /\ owner = 0
    /\ owner' = t
    /\ drawn' = [drawn EXCEPT ![t] = @ \union {ctr + k : k \in {j \in 1..3 : j <= n}}]
    /\ ctr' = ctr + n
    /\ total' = total + n
    /\ UNCHANGED copy

Release(t) ==
    /\ owner = t
    /\ owner' = 0
    /\ UNCHANGED <<ctr, drawn, total, copy>>

\* variant "clone": copy the generator (short lock), draw from the copy without the lock, write it back
CloneTake(t) ==
    /\ Variant = "clone"
    /\ owner = 0 /\ copy[t] = -1
    /\ copy' = [copy EXCEPT ![t] = ctr]
    /\ UNCHANGED <<owner, ctr, drawn, total>>
CloneDraw(t, n) ==
    /\ Variant = "clone"
    /\ copy[t] >= 0
    /\ drawn' = [drawn EXCEPT ![t] = @ \union {copy[t] + k : k \in {j \in 1..3 : j <= n}}]
    /\ total' = total + n
    /\ owner = 0
    /\ ctr' = copy[t] + n
    /\ copy' = [copy EXCEPT ![t] = -1]
    /\ UNCHANGED owner

Next == \E t \in Threads : \/ \E n \in 1..3 : Section(t, n)
                           \/ Release(t)
                           \/ CloneTake(t)
                           \/ \E n \in 1..3 : CloneDraw(t, n)

AllDrawn == UNION {drawn[t] : t \in Threads}
TypeOK == /\ owner \in Threads \union {0}
          /\ ctr >= 0 /\ total >= 0
          /\ DOMAIN drawn = Threads
          /\ DOMAIN copy = Threads
\* the inductive invariant: everything drawn so far is at most the counter (so the next values are new),
\* and no value is held by two threads
IndInv ==
    /\ TypeOK
    /\ \A t \in Threads : \A v \in drawn[t] : v >= 1 /\ v <= ctr
    /\ \A t1 \in Threads : \A t2 \in Threads : t1 # t2 => drawn[t1] \intersect drawn[t2] = {}
    /\ (Variant = "fixed" => \A t \in Threads : copy[t] = -1)
\* C16 (action property): the values a step hands out were never handed out before, to any thread
NewFresh == \A t \in Threads : (drawn'[t] \ drawn[t]) \intersect AllDrawn = {}
\* ... and a step hands out as many distinct values as it draws
CountOk == Cardinality(AllDrawn') - Cardinality(AllDrawn) = total' - total

Spec == Init /\ [][Next]_vars
Bounded == ctr <= 6 /\ total <= 8
StepOk == [][NewFresh /\ CountOk]_vars
=============================================================================
