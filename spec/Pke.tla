-------------------------------- MODULE Pke --------------------------------
(***************************************************************************)
(* C12: the public-key-encryption layer (PkeAc for Covercrypt) and the     *)
(* encrypted-header layer as a symbolic KEM-DEM composition, and the       *)
(* contract of the property statement.                                     *)
(*                                                                         *)
(*   seed, enc        <- encaps(mpk, policy)                               *)
(*   PKE   : key = Kdf(seed, "Covercrypt AE key")                          *)
(*           ciphertext = (enc, nonce ++ AEAD(key, nonce, ptx, aad = ""))  *)
(*   header: key = Kdf(seed, [0]); secret = Kdf(seed, [1])                 *)
(*           wire = enc ++ len ++ nonce ++ AEAD(key, nonce, md, aad)       *)
(*           (no metadata: len = 0 and nothing else; the in-memory values  *)
(*            None and Some([]) of the encrypted metadata are this same    *)
(*            wire value)                                                  *)
(*                                                                         *)
(* Cryptography is ideal: Kdf terms are equal iff seed and label are, an   *)
(* AEAD ciphertext opens iff key, nonce, body, tag and associated data are *)
(* all the ones of the sealing call, an encapsulation yields its seed to   *)
(* an authorized key, nothing to an unauthorized one, and an altered       *)
(* encapsulation is either unparsable or refused (Fujisaki-Okamoto check). *)
(*                                                                         *)
(*   Design(c)   : the verdicts the composition AS DESIGNED can produce on  *)
(*                 the abstract case c (symbolic execution of decryption   *)
(*                 over the received wire value).                          *)
(*   Contract(c) : the verdicts the property statement allows: exact data  *)
(*                 and secret iff nothing was altered and the associated   *)
(*                 data has the same content (authorized key), "none" for  *)
(*                 an unauthorized key, otherwise an error.                *)
(*   Expected(c) : Design(c) when it meets the contract, else Contract(c). *)
(*                 It never contains "ok-wrong" or "panic".                *)
(*   Gap(c)      : names the cases where the DESIGN itself does not meet   *)
(*                 the contract (found by TLC, before any real execution). *)
(*                                                                         *)
(* Mode "gen"  : prints every abstract case with its expected verdict.     *)
(* Mode "check": reads what the real library did on the concretisations of *)
(*               the cases and judges every record against Expected,       *)
(*               recomputed here from the case description.                *)
(***************************************************************************)
EXTENDS Naturals, Sequences, FiniteSets, TLC, Json, IOUtils

CONSTANTS Lens,   \* plaintext / metadata lengths
          Full    \* TRUE: thorough tier (all aad pairs on tampered cases, exhaustive flips on a sub-family)

Mode == IF "MODE" \in DOMAIN IOEnv THEN IOEnv.MODE ELSE "gen"

(***************************************************************************)
(* Symbolic cryptography                                                   *)
(***************************************************************************)
LblPke == "Covercrypt AE key"
LblMeta == "0"       \* &[0u8]
LblSecret == "1"     \* &[1u8]
Kdf(seed, label) == <<"kdf", seed, label>>
RawKey(seed) == <<"raw", seed, "">>          \* the seed itself used as a key
NoKey == <<"nokey", "", "">>

NoMsg == [present |-> FALSE, len |-> 0, id |-> "-"]
Msg(n, id) == [present |-> TRUE, len |-> n, id |-> id]

NoCt == [present |-> FALSE, key |-> NoKey, msg |-> NoMsg, aad |-> "", nonce |-> "-", body |-> "-", tag |-> "-"]
Seal(key, msg, aad) == [present |-> TRUE, key |-> key, msg |-> msg, aad |-> aad,
                        nonce |-> "ok", body |-> "ok", tag |-> "ok"]
\* ideal authenticated encryption: everything that went into the sealing call is bound
Open(ct, key, aad) ==
    IF /\ ct.present
       /\ ct.nonce = "ok"
       /\ ct.body = "ok"
       /\ ct.tag = "ok"
       /\ ct.key = key
       /\ ct.aad = aad
    THEN [r |-> "ok", msg |-> ct.msg]
    ELSE [r |-> "err", msg |-> NoMsg]

\* ideal KEM with access control; an altered encapsulation is rejected by the parser or by the FO check
DecapsSet(key, enc) ==
    CASE enc.st = "ok" -> IF key = "authorized" THEN {[r |-> "seed", seed |-> enc.seed]}
                                                ELSE {[r |-> "none", seed |-> "-"]}
      [] enc.st = "flipped" -> {[r |-> "err", seed |-> "-"], [r |-> "none", seed |-> "-"]}
      [] OTHER -> {[r |-> "err", seed |-> "-"]}

(***************************************************************************)
(* Abstract cases                                                          *)
(***************************************************************************)
\* associated data CONTENT: absent (None) and empty (Some([])) are the same AEAD input
AadGenVal(c) == IF c.aadg = "nonempty" THEN "A" ELSE ""
AadDecVal(c) == CASE c.aadd = "same" -> AadGenVal(c)
                  [] c.aadd = "different" -> "B"
                  [] OTHER -> ""

Other(layer) == IF layer = "pke" THEN "header" ELSE "pke"
Probes == {"open-with-secret", "open-with-seed"}
DecLayer(c) == IF c.tamper = "cross-layer" THEN Other(c.layer) ELSE c.layer

GenMsg(c) == IF c.layer = "header" /\ c.md = "absent" THEN NoMsg ELSE Msg(c.len, "m1")
GenCt(c) == IF c.layer = "pke" THEN Seal(Kdf("s1", LblPke), GenMsg(c), "")
            ELSE IF c.md = "absent" THEN NoCt
            ELSE Seal(Kdf("s1", LblMeta), GenMsg(c), AadGenVal(c))
\* what generation returned to the sender (the reference of "exact")
Generated(c) == [data |-> GenMsg(c), secret |-> IF c.layer = "header" THEN Kdf("s1", LblSecret) ELSE NoKey]

\* wire value: the encapsulation, the (possibly absent) AEAD ciphertext, the state of the length framing
Sent(c) == [enc |-> [seed |-> "s1", st |-> "ok"], ct |-> GenCt(c), frame |-> "ok"]

\* truncation: everything from the region of the cut on is missing or incomplete. A header is one
\* length-framed byte string; a PKE ciphertext is the pair (encapsulation, unframed byte string).
CutCt(ct, region) ==
    CASE region = "nonce" -> [ct EXCEPT !.nonce = "cut", !.body = "cut", !.tag = "cut"]
      [] region = "body" -> [ct EXCEPT !.body = "cut", !.tag = "cut"]
      [] region = "tag" -> [ct EXCEPT !.tag = "cut"]
      [] OTHER -> ct
Cut(c, w) ==
    [enc |-> IF c.region = "enc" THEN [w.enc EXCEPT !.st = "cut"] ELSE w.enc,
     ct |-> IF c.region \in {"enc", "len"}
            THEN (IF w.ct.present /\ c.layer = "header" THEN CutCt(w.ct, "nonce") ELSE w.ct)
            ELSE CutCt(w.ct, c.region),
     frame |-> IF c.layer = "header" THEN "cut" ELSE w.frame]

Recv(c) ==
    LET w == Sent(c)
    IN CASE c.tamper = "flip-nonce" -> [w EXCEPT !.ct.nonce = "flipped"]
         [] c.tamper = "flip-body" -> [w EXCEPT !.ct.body = "flipped"]
         [] c.tamper = "flip-tag" -> [w EXCEPT !.ct.tag = "flipped"]
         [] c.tamper = "flip-length" -> [w EXCEPT !.frame = "badlen"]
         [] c.tamper = "flip-encapsulation" -> [w EXCEPT !.enc.st = "flipped"]
         [] c.tamper = "truncate" -> Cut(c, w)
         \* the encrypted metadata cut short inside a header that is framed consistently again
         \* (at least one byte is left: no byte at all is the strip class)
         [] c.tamper = "truncate-metadata" -> [w EXCEPT !.ct = CutCt(w.ct, c.region)]
         [] c.tamper = "strip-metadata" -> [w EXCEPT !.ct = NoCt]
         \* the encapsulation of this header with the encrypted metadata of another header
         \* (other seed, metadata of the same length, same associated data)
         [] c.tamper = "swap-metadata" -> [w EXCEPT !.ct = Seal(Kdf("s2", LblMeta), Msg(c.len, "m2"), AadGenVal(c))]
         [] OTHER -> w    \* none, cross-layer and the probes leave the bytes alone

(***************************************************************************)
(* The composition as designed                                             *)
(***************************************************************************)
ParseOk(w) == w.frame = "ok" /\ w.enc.st # "cut"

Dem(layer, w, d, aad) ==
    IF d.r # "seed" THEN [r |-> d.r, data |-> NoMsg, secret |-> NoKey]
    ELSE IF layer = "pke"
    THEN LET o == Open(w.ct, Kdf(d.seed, LblPke), "")     \* an absent ciphertext is shorter than a nonce
         IN [r |-> o.r, data |-> o.msg, secret |-> NoKey]
    ELSE LET o == IF w.ct.present THEN Open(w.ct, Kdf(d.seed, LblMeta), aad)
                  ELSE [r |-> "ok", msg |-> NoMsg]        \* no AEAD call at all
         IN [r |-> o.r, data |-> o.msg, secret |-> IF o.r = "ok" THEN Kdf(d.seed, LblSecret) ELSE NoKey]

Verdict(res, gen) == IF res.r = "ok"
                     THEN IF res.data = gen.data /\ res.secret = gen.secret THEN "ok-exact" ELSE "ok-wrong"
                     ELSE res.r

\* the probes open the AEAD ciphertext directly with a value the API hands out
ProbeKey(c) == IF c.tamper = "open-with-secret" THEN Kdf("s1", LblSecret) ELSE RawKey("s1")

Design(c) ==
    LET w == Recv(c)
        g == Generated(c)
    IN IF c.tamper \in Probes
       THEN LET o == Open(w.ct, ProbeKey(c), AadDecVal(c))
            IN {Verdict([r |-> o.r, data |-> o.msg, secret |-> g.secret], g)}
       ELSE IF ~ParseOk(w) THEN {"err"}
       ELSE {Verdict(Dem(DecLayer(c), w, d, AadDecVal(c)), g) : d \in DecapsSet(c.key, w.enc)}

(***************************************************************************)
(* The contract of the statement                                           *)
(***************************************************************************)
Clean(c) == /\ Recv(c) = Sent(c)
            /\ AadDecVal(c) = AadGenVal(c)
            /\ c.tamper \notin Probes \cup {"cross-layer"}
\* the KEM layer runs first: it may answer "not authorized" before any authentication failure shows
KemMayRefuse(c) == /\ c.tamper \notin Probes
                   /\ \/ c.key = "unauthorized"
                      \/ Recv(c).enc # Sent(c).enc
Contract(c) == IF Clean(c) THEN (IF c.key = "authorized" THEN {"ok-exact"} ELSE {"none"})
               ELSE {"err"} \cup (IF KemMayRefuse(c) THEN {"none"} ELSE {})

Meets(c) == Design(c) \subseteq Contract(c)
Expected(c) == IF Meets(c) THEN Design(c) ELSE Contract(c)
Gap(c) == IF Meets(c) THEN ""
          ELSE IF Sent(c).ct.present /\ ~Recv(c).ct.present THEN "metadata-stripped"
          ELSE IF ~Sent(c).ct.present /\ AadDecVal(c) # AadGenVal(c) THEN "aad-unbound-without-metadata"
          ELSE "design-gap"

Str(S) == CASE S = {"ok-exact"} -> "ok-exact"
            [] S = {"none"} -> "none"
            [] S = {"err"} -> "err"
            [] S = {"err", "none"} -> "err-or-none"
            [] OTHER -> "ILL-FORMED"

(***************************************************************************)
(* The family of cases                                                     *)
(***************************************************************************)
Keys == {"authorized", "unauthorized"}
AadG == {"absent", "empty", "nonempty"}
AadD == {"absent", "empty", "same", "different"}
Mds == {[md |-> "absent", len |-> 0], [md |-> "empty", len |-> 0]}
       \cup {[md |-> "nonempty", len |-> n] : n \in Lens \ {0}}

\* tamper classes with the region they touch
FlipOf == [nonce |-> "flip-nonce", body |-> "flip-body", tag |-> "flip-tag", len |-> "flip-length",
           enc |-> "flip-encapsulation"]
CtRegionOk(r, present, len) == CASE r \in {"nonce", "tag"} -> present
                                 [] r = "body" -> present /\ len > 0
                                 [] OTHER -> TRUE
PkeRegions == {"enc", "nonce", "body", "tag"}
\* thorough tier: a cut inside the encapsulation fails in the parser whatever follows, a few lengths suffice there
EncCutOk(r, len) == r # "enc" \/ ~Full \/ len \in {0, 16, 80}
HdrRegions == {"enc", "len", "nonce", "body", "tag"}

\* which associated-data pairs accompany a tamper class
Cuts == {"truncate", "truncate-metadata"}
AadPairs(t) == IF t \in {"none", "strip-metadata"} \/ (Full /\ t \notin Cuts)
               THEN AadG \X AadD
               ELSE IF t \in Cuts /\ ~Full THEN AadG \X {"same"}
               ELSE AadG \X {"same", "different"}

\* exhaustive expansion (every byte x every bit) is asked of the harness on this sub-family
Expand(t, ag, ad, k, len) == IF Full /\ k = "authorized" /\ ad = "same" /\ ag \in {"absent", "nonempty"}
                                     /\ (t # "flip-encapsulation" \/ len \in {0, 16})
                             THEN "all" ELSE "sample"

PkeCase(n, k, t, r) == [layer |-> "pke", len |-> n, md |-> "na", aadg |-> "na", aadd |-> "na", key |-> k,
                        tamper |-> t, region |-> r,
                        expand |-> Expand(t, "absent", "same", k, n)]
HdrCase(m, ag, ad, k, t, r) == [layer |-> "header", len |-> m.len, md |-> m.md, aadg |-> ag, aadd |-> ad, key |-> k,
                                tamper |-> t, region |-> r, expand |-> Expand(t, ag, ad, k, m.len)]

PkeCases ==
    {PkeCase(n, k, "none", "-") : n \in Lens, k \in Keys}
    \cup {PkeCase(n, k, FlipOf[r], r) : n \in Lens, k \in Keys, r \in {x \in PkeRegions : x # "body"}}
    \cup {PkeCase(n, k, "flip-body", "body") : n \in Lens \ {0}, k \in Keys}
    \cup UNION {{PkeCase(n, k, "truncate", r) : n \in {y \in Lens : EncCutOk(r, y)}, k \in Keys}
                : r \in {x \in PkeRegions : x # "body"}}
    \cup {PkeCase(n, k, "truncate", "body") : n \in Lens \ {0}, k \in Keys}
    \cup {PkeCase(n, k, "cross-layer", "-") : n \in Lens, k \in Keys}
    \cup {PkeCase(n, "authorized", "open-with-seed", "-") : n \in Lens}

HdrFamily(t, r, ms) == {HdrCase(m, p[1], p[2], k, t, r) : m \in ms, p \in AadPairs(t), k \in Keys}
Present == {m \in Mds : m.md # "absent"}
HdrCases ==
    HdrFamily("none", "-", Mds)
    \cup UNION {HdrFamily(FlipOf[r], r, {m \in Mds : CtRegionOk(r, m.md # "absent", m.len)}) : r \in HdrRegions}
    \cup UNION {HdrFamily("truncate", r, {m \in Mds : CtRegionOk(r, m.md # "absent", m.len) /\ EncCutOk(r, m.len)})
                : r \in HdrRegions}
    \cup UNION {HdrFamily("truncate-metadata", r, {m \in Mds : CtRegionOk(r, m.md # "absent", m.len)})
                : r \in {"nonce", "body", "tag"}}
    \cup HdrFamily("strip-metadata", "-", Present)
    \cup HdrFamily("swap-metadata", "-", Present)
    \cup {HdrCase(m, ag, "same", k, "cross-layer", "-") : m \in Present, ag \in AadG, k \in Keys}
    \cup {HdrCase(m, ag, "same", "authorized", t, "-") : m \in Present, ag \in AadG, t \in Probes}

Cases == PkeCases \cup HdrCases

Out(c) == c @@ [exp |-> Str(Expected(c)), gap |-> Gap(c)]

Gen == /\ \A c \in Cases : PrintT(<<"CASE", ToJson(Out(c))>>)
       \* the verdicts are well formed: never wrong data, never a panic
       /\ \A c \in Cases : Str(Expected(c)) # "ILL-FORMED"
       \* design-level counterexamples to the contract, derived without running any code
       /\ \A c \in Cases : ~Meets(c) => PrintT(<<"GAP", ToJson(Out(c) @@ [design |-> Design(c)])>>)
       /\ PrintT(<<"GEN-DONE", Cardinality(Cases), Cardinality({c \in Cases : ~Meets(c)})>>)

(***************************************************************************)
(* Check mode: every observed record carries the fields of its abstract    *)
(* case, the observed outcome                                              *)
(*    obs \in {"ok-exact", "ok-wrong", "none", "err", "panic",             *)
(*             "layout-unknown"}                                           *)
(* and a detail record. The expected verdict is recomputed from the case.  *)
(***************************************************************************)
Obs == IF Mode = "check" THEN ndJsonDeserialize(IOEnv.TRACE) ELSE <<>>
\* ("layout-unknown": the byte-level case could not be placed because the object is not laid out as the
\*  cases assume -- the layout is not part of C12; counted by the driver as MODEL-DRIFT, not judged)
Bad(i) == Obs[i].obs # "layout-unknown" /\ Obs[i].obs \notin Expected(Obs[i])
Cause(o) == IF Gap(o) # "" /\ o.obs \in Design(o) THEN Gap(o) ELSE o.obs
Check == /\ \A i \in 1..Len(Obs) :
              Bad(i) => PrintT(<<"VIOL", i, ToJson([case |-> Obs[i], expected |-> Str(Expected(Obs[i])),
                                                    cause |-> Cause(Obs[i])])>>)
         /\ PrintT(<<"CHECK-DONE", Len(Obs), Cardinality({i \in 1..Len(Obs) : Bad(i)})>>)

ASSUME IF Mode = "gen" THEN Gen ELSE Check

\* a trivial behaviour so that TLC has something to run
VARIABLE x
Init == x = 0
Next == x' = x
=============================================================================
