------------------------------ MODULE FlagInd -------------------------------
(***************************************************************************)
(* C06 for ALL histories of one right: once an attribute of the right is   *)
(* disabled and an update applied it, no public key ever publishes the     *)
(* right again, while its secrets stay in the master key (decryptable).    *)
(*                                                                         *)
(* One right.  The master key's chain is a sequence of activation flags,   *)
(* newest first; the structure says whether some attribute of the right is *)
(* disabled (there is no way back: no operation re-enables an attribute).  *)
(* Actions as in primitives.rs after commit c136dfc:                       *)
(*   Disable : structure only                                              *)
(*   Update  : the newest secret's flag := not disabled                    *)
(*   Rekey   : a new newest secret INHERITS the flag of the previous one   *)
(*   Prune   : keeps the newest only                                       *)
(*   Mpk     : publishes the right iff the newest secret is activated      *)
(* Variant "rekey_reactivates" (before c136dfc: the new secret is always   *)
(* activated) is the self-test.                                            *)
(***************************************************************************)
EXTENDS Integers, Sequences

CONSTANT
    \* @type: Str;
    Variant

VARIABLES
    \* @type: Seq(Bool);
    act,
    \* @type: Bool;
    dis,
    \* the disable was applied by an update (ghost)
    \* @type: Bool;
    applied,
    \* @type: Bool;
    published

vars == <<act, dis, applied, published>>

Init == act = <<TRUE>> /\ dis = FALSE /\ applied = FALSE /\ published = TRUE

Disable == dis' = TRUE /\ UNCHANGED <<act, applied, published>>
Update == /\ act' = [act EXCEPT ![1] = ~dis]
          /\ applied' = dis
          /\ published' = ~dis
          /\ UNCHANGED dis
Rekey == /\ act' = <<IF Variant = "rekey_reactivates" THEN TRUE ELSE act[1]>> \o act
         /\ published' = act'[1]
         /\ UNCHANGED <<dis, applied>>
Prune == /\ act' = <<act[1]>>
         /\ published' = act'[1]
         /\ UNCHANGED <<dis, applied>>
Mpk == published' = act[1] /\ UNCHANGED <<act, dis, applied>>
Next == Disable \/ Update \/ Rekey \/ Prune \/ Mpk

TypeOK == Len(act) >= 1
\* the invariant: an applied disable is permanent, and what is published is what the newest flag says
IndInv == /\ TypeOK
          /\ (applied => dis)
          /\ (applied => ~act[1])
          /\ (published => act[1])
\* C06: after the update that applied the disable, the right is never published again
NeverAgain == applied => ~published
\* ... but its secrets are still there (still decryptable by keys that hold them)
StillHeld == Len(act) >= 1

Spec == Init /\ [][Next]_vars
Bounded == Len(act) <= 5
=============================================================================
