------------------------------- MODULE UskMac -------------------------------
(***************************************************************************)
(* C08: which arrangements of a user key does the master key accept for    *)
(* refresh?  Symbolic model of the integrity check of primitives::sign /    *)
(* verify: the MAC input is built EXACTLY as the code builds it --          *)
(*   markers, then for each right: the raw name bytes followed by the raw   *)
(*   bytes of each secret (ElGamal scalar, then the ML-KEM key if           *)
(*   hybridised) -- with no lengths, no counts and no flavour flag.         *)
(* Widths are reduced (scalar WSK symbols, ML-KEM part WDK symbols).        *)
(*                                                                          *)
(* A key is a sequence of rights [name: Seq(Sym), chain: Seq([h, b])].      *)
(* Tamper kinds are operators on keys (the harness has a byte-level twin    *)
(* of each).  The module decides, per kind, whether the MAC input is        *)
(* preserved (then the code accepts the tampered key: finding F-UNFRAMED)   *)
(* and whether the result is still the issued key (then it must be          *)
(* accepted).  Parses(S) enumerates ALL well-formed keys having MAC input   *)
(* S; with the framed input FramedInput it is a singleton.                  *)
(***************************************************************************)
EXTENDS Naturals, Sequences, FiniteSets, TLC, Json, IOUtils

CONSTANTS WSK, WDK

Mode == IF "MODE" \in DOMAIN IOEnv THEN IOEnv.MODE ELSE "gen"

RECURSIVE Flat(_)
Flat(ss) == IF ss = <<>> THEN <<>> ELSE Head(ss) \o Flat(Tail(ss))

ChainBytes(ch) == Flat([i \in 1..Len(ch) |-> ch[i].b])
RightBytes(r) == r.name \o ChainBytes(r.chain)
MacInput(k) == Flat([i \in 1..Len(k) |-> RightBytes(k[i])])
\* what a framed MAC input would look like: counts, lengths and flavour included
FramedRight(r) == <<Len(r.name)>> \o r.name \o <<Len(r.chain)>>
                  \o Flat([i \in 1..Len(r.chain) |-> <<IF r.chain[i].h THEN 1 ELSE 0>> \o r.chain[i].b])
FramedInput(k) == <<Len(k)>> \o Flat([i \in 1..Len(k) |-> FramedRight(k[i])])

WellFormed(k) == \A i \in 1..Len(k) : /\ Len(k[i].chain) >= 1
                                      /\ \A j \in 1..Len(k[i].chain) :
                                            Len(k[i].chain[j].b) = IF k[i].chain[j].h THEN WSK + WDK ELSE WSK

(***************************************************************************)
(* All well-formed keys with a given MAC input S                           *)
(***************************************************************************)
Sub(S, i, j) == SubSeq(S, i, j - 1)        \* S[i..j)
RECURSIVE Chains(_, _, _)
\* all non-empty chains exactly covering S[i..j)
Chains(S, i, j) ==
    IF i = j THEN {}
    ELSE LET one(w, h) == IF i + w = j THEN {<<[h |-> h, b |-> Sub(S, i, j)]>>} ELSE {}
             more(w, h) == IF i + w < j
                           THEN {<<[h |-> h, b |-> Sub(S, i, i + w)]>> \o c : c \in Chains(S, i + w, j)}
                           ELSE {}
         IN one(WSK, FALSE) \cup one(WSK + WDK, TRUE) \cup more(WSK, FALSE) \cup more(WSK + WDK, TRUE)
RECURSIVE KeysFrom(_, _)
KeysFrom(S, i) ==
    LET N == Len(S)
    IN IF i = N + 1 THEN {<<>>}
       ELSE UNION { UNION { { <<[name |-> Sub(S, i, s), chain |-> c]>> \o rest
                              : c \in Chains(S, s, e), rest \in KeysFrom(S, e) }
                            : e \in (s + WSK)..(N + 1) }
                    : s \in i..(N + 1 - WSK) }
Parses(S) == KeysFrom(S, 1)

(***************************************************************************)
(* Tamper kinds.  Each is a partial operator: Applicable / Apply.          *)
(* i is a position (index of a right).                                     *)
(***************************************************************************)
Kinds == {"identity", "merge_into_next", "shift_name_to_secret", "shift_secret_to_name", "split_chain",
          "flavour_down_spill", "move_secret_to_nameless_next", "reorder", "drop_right", "dup_right",
          "rename", "drop_secret", "move_secret_to_next", "flip_flag_truncate", "add_right",
          "split_chain_keep_name", "swap_secrets_in_chain", "swap_heads_across"}
\* kinds that act on the envelope (signature, identifier, other master key): decided outside MacInput
EnvelopeKinds == {"strip_sig", "alter_sig", "alter_id", "foreign_key", "splice_rights", "swap_sig"}

Replace(k, i, rs) == SubSeq(k, 1, i - 1) \o rs \o SubSeq(k, i + 1, Len(k))
Replace2(k, i, rs) == SubSeq(k, 1, i - 1) \o rs \o SubSeq(k, i + 2, Len(k))
Last(s) == s[Len(s)]
Front(s) == SubSeq(s, 1, Len(s) - 1)
\* re-cut a chain over new bytes keeping its flavours
RECURSIVE Recut(_, _)
Recut(ch, bytes) == IF ch = <<>> THEN <<>>
                    ELSE LET w == Len(ch[1].b)
                         IN <<[h |-> ch[1].h, b |-> SubSeq(bytes, 1, w)]>> \o Recut(Tail(ch), SubSeq(bytes, w + 1, Len(bytes)))

Applicable(kind, k, i) ==
    /\ i \in 1..Len(k)
    /\ CASE kind = "identity" -> i = 1
         [] kind = "merge_into_next" -> i < Len(k)
         [] kind = "shift_name_to_secret" -> i < Len(k) /\ Len(k[i].name) >= 1
         [] kind = "shift_secret_to_name" -> i < Len(k) /\ Len(k[i + 1].name) >= 1
         [] kind = "split_chain" -> Len(k[i].chain) >= 2
         [] kind = "flavour_down_spill" -> i < Len(k) /\ Last(k[i].chain).h
         [] kind = "move_secret_to_nameless_next" -> i < Len(k) /\ k[i + 1].name = <<>> /\ Len(k[i].chain) >= 2
         [] kind = "reorder" -> i < Len(k) /\ k[i] # k[i + 1]
         [] kind = "drop_right" -> Len(k) >= 2
         [] kind = "dup_right" -> TRUE
         [] kind = "rename" -> Len(k[i].name) >= 1
         [] kind = "drop_secret" -> Len(k[i].chain) >= 2
         [] kind = "move_secret_to_next" -> i < Len(k) /\ k[i + 1].name # <<>> /\ Len(k[i].chain) >= 2
         [] kind = "flip_flag_truncate" -> Last(k[i].chain).h
         [] kind = "add_right" -> i = 1
         [] kind = "split_chain_keep_name" -> Len(k[i].chain) >= 2 /\ Len(k[i].name) >= 1
         [] kind = "swap_secrets_in_chain" -> Len(k[i].chain) >= 2 /\ k[i].chain[1] # k[i].chain[2]
         [] kind = "swap_heads_across" -> i < Len(k) /\ k[i].chain[1] # k[i + 1].chain[1] /\ k[i].chain[1].h = k[i + 1].chain[1].h

Apply(kind, k, i) ==
    CASE kind = "identity" -> k
      [] kind = "merge_into_next" ->
           Replace2(k, i, <<[k[i + 1] EXCEPT !.name = RightBytes(k[i]) \o @]>>)
      [] kind = "shift_name_to_secret" ->
           LET bytes == <<Last(k[i].name)>> \o ChainBytes(k[i].chain)
           IN Replace2(k, i, << [name |-> Front(k[i].name), chain |-> Recut(k[i].chain, Front(bytes))],
                                [k[i + 1] EXCEPT !.name = <<Last(bytes)>> \o @] >>)
      [] kind = "shift_secret_to_name" ->
           LET bytes == ChainBytes(k[i].chain) \o <<Head(k[i + 1].name)>>
           IN Replace2(k, i, << [name |-> k[i].name \o <<Head(bytes)>>, chain |-> Recut(k[i].chain, Tail(bytes))],
                                [k[i + 1] EXCEPT !.name = Tail(@)] >>)
      [] kind = "split_chain" ->
           Replace(k, i, << [k[i] EXCEPT !.chain = <<Head(@)>>], [name |-> <<>>, chain |-> Tail(k[i].chain)] >>)
      [] kind = "flavour_down_spill" ->
           LET s == Last(k[i].chain)
               sk == SubSeq(s.b, 1, WSK)
               dk == SubSeq(s.b, WSK + 1, WSK + WDK)
           IN Replace2(k, i, << [k[i] EXCEPT !.chain = Front(@) \o <<[h |-> FALSE, b |-> sk]>>],
                                [k[i + 1] EXCEPT !.name = dk \o @] >>)
      [] kind = "move_secret_to_nameless_next" ->
           Replace2(k, i, << [k[i] EXCEPT !.chain = Front(@)],
                             [k[i + 1] EXCEPT !.chain = <<Last(k[i].chain)>> \o @] >>)
      [] kind = "reorder" -> Replace2(k, i, <<k[i + 1], k[i]>>)
      [] kind = "drop_right" -> Replace(k, i, <<>>)
      [] kind = "dup_right" -> Replace(k, i, <<k[i], k[i]>>)
      [] kind = "rename" -> Replace(k, i, <<[k[i] EXCEPT !.name = Front(@) \o <<Last(@) + 100>>]>>)
      [] kind = "drop_secret" -> Replace(k, i, <<[k[i] EXCEPT !.chain = Front(@)]>>)
      [] kind = "move_secret_to_next" ->
           Replace2(k, i, << [k[i] EXCEPT !.chain = Front(@)],
                             [k[i + 1] EXCEPT !.chain = <<Last(k[i].chain)>> \o @] >>)
      [] kind = "flip_flag_truncate" ->
           Replace(k, i, <<[k[i] EXCEPT !.chain = Front(@) \o <<[h |-> FALSE, b |-> SubSeq(Last(@).b, 1, WSK)]>>]>>)
      [] kind = "split_chain_keep_name" ->
           Replace(k, i, << [k[i] EXCEPT !.chain = <<Head(@)>>], [name |-> k[i].name, chain |-> Tail(k[i].chain)] >>)
      [] kind = "swap_secrets_in_chain" ->
           Replace(k, i, <<[k[i] EXCEPT !.chain = <<@[2], @[1]>> \o SubSeq(@, 3, Len(@))]>>)
      [] kind = "swap_heads_across" ->
           Replace2(k, i, << [k[i] EXCEPT !.chain[1] = k[i + 1].chain[1]], [k[i + 1] EXCEPT !.chain[1] = k[i].chain[1]] >>)
      [] kind = "add_right" -> k \o <<[name |-> <<99>>, chain |-> <<[h |-> FALSE, b |-> [j \in 1..WSK |-> 90 + j]]>>]>>

(***************************************************************************)
(* Symbolic issued keys (shapes): distinct symbols everywhere              *)
(***************************************************************************)
Sec(h, base) == [h |-> h, b |-> [j \in 1..(IF h THEN WSK + WDK ELSE WSK) |-> base + j]]
Shapes == <<
   \* broadcast right (empty name) first, then a named classic right with two revisions
   << [name |-> <<>>, chain |-> <<Sec(FALSE, 10)>>], [name |-> <<1>>, chain |-> <<Sec(FALSE, 20), Sec(FALSE, 30)>>] >>,
   \* named hybridised right with two revisions, then the broadcast right, then a two-byte name
   << [name |-> <<2>>, chain |-> <<Sec(TRUE, 10), Sec(TRUE, 20)>>], [name |-> <<>>, chain |-> <<Sec(FALSE, 30), Sec(FALSE, 40)>>],
      [name |-> <<1, 2>>, chain |-> <<Sec(TRUE, 50)>>] >>,
   \* mixed flavours in one chain (a right whose hybridisation was dropped later)
   << [name |-> <<3>>, chain |-> <<Sec(FALSE, 10), Sec(TRUE, 20)>>], [name |-> <<4>>, chain |-> <<Sec(FALSE, 30)>>] >>
>>

\* per kind: is the MAC input preserved on every applicable (shape, position)?  (uniform by construction)
AppCases(kind) == {<<s, i>> \in (1..Len(Shapes)) \X (1..3) : Applicable(kind, Shapes[s], i)}
Preserves(kind) == \A c \in AppCases(kind) : MacInput(Apply(kind, Shapes[c[1]], c[2])) = MacInput(Shapes[c[1]])
Breaks(kind) == \A c \in AppCases(kind) : MacInput(Apply(kind, Shapes[c[1]], c[2])) # MacInput(Shapes[c[1]])
IsIdentity(kind) == \A c \in AppCases(kind) : Apply(kind, Shapes[c[1]], c[2]) = Shapes[c[1]]
\* with a framed input every non-identity kind changes the MAC input
FramedBreaks(kind) == \A c \in AppCases(kind) :
        Apply(kind, Shapes[c[1]], c[2]) # Shapes[c[1]] => FramedInput(Apply(kind, Shapes[c[1]], c[2])) # FramedInput(Shapes[c[1]])

\* the exhaustive enumeration of parses is exponential: only for the short MAC inputs
SmallShapes == {s \in 1..Len(Shapes) : Len(MacInput(Shapes[s])) <= 12}
KindRec(kind) == [kind |-> kind, applicable |-> Cardinality(AppCases(kind)),
                  preserves_mac |-> Preserves(kind), identity |-> IsIdentity(kind), envelope |-> FALSE]
EnvRec(kind) == [kind |-> kind, applicable |-> 1, preserves_mac |-> FALSE, identity |-> FALSE, envelope |-> TRUE]

Gen ==
    /\ \A kind \in Kinds : AppCases(kind) # {} /\ (Preserves(kind) \/ Breaks(kind)) /\ FramedBreaks(kind)
    /\ \A kind \in Kinds : PrintT(<<"CASE", ToJson(KindRec(kind))>>)
    /\ \A kind \in EnvelopeKinds : PrintT(<<"CASE", ToJson(EnvRec(kind))>>)
    \* design-level result: number of well-formed keys sharing the MAC input of each shape
    /\ \A s \in SmallShapes :
          PrintT(<<"PARSES", ToJson([shape |-> s, mac_len |-> Len(MacInput(Shapes[s])),
                                      parses_unframed |-> Cardinality(Parses(MacInput(Shapes[s]))),
                                      wellformed |-> WellFormed(Shapes[s]),
                                      issued_is_a_parse |-> Shapes[s] \in Parses(MacInput(Shapes[s]))])>>)
    /\ \A s \in SmallShapes : \A kind \in Kinds : \A i \in 1..3 :
          Applicable(kind, Shapes[s], i) /\ Preserves(kind) =>
             Apply(kind, Shapes[s], i) \in Parses(MacInput(Shapes[s]))
    /\ PrintT(<<"GEN-DONE", Cardinality(Kinds \cup EnvelopeKinds)>>)

(***************************************************************************)
(* Check mode: observed records                                            *)
(*   [kind, pos, keep, parsed, accepted, unchanged, same_key, mac_equal]   *)
(***************************************************************************)
Obs == IF Mode = "check" THEN ndJsonDeserialize(IOEnv.TRACE) ELSE <<>>
PreservesK(kind) == IF kind \in Kinds THEN Preserves(kind) ELSE FALSE
Verdict(o) ==
    IF ~o.parsed THEN "ok"                                   \* the mutant is not even a user key
    ELSE IF o.accepted /\ ~o.same_key
         THEN (IF PreservesK(o.kind) /\ o.mac_equal THEN "unframed" ELSE "accepted-foreign-arrangement")
    ELSE IF ~o.accepted /\ o.same_key THEN "issued-refused"
    ELSE IF ~o.accepted /\ ~o.unchanged THEN "modified-on-reject"
    ELSE "ok"
\* conformance of the model: the kinds it says preserve the MAC input do so on real bytes
\* (a scalar re-cut from shifted bytes may be a non-canonical encoding, which the library reduces
\*  on read: the MAC input of the parsed key then differs -- not a drift of the model)
Recutting == {"shift_name_to_secret", "shift_secret_to_name"}
Drift(o) == /\ o.parsed
            /\ o.kind \in Kinds
            /\ \/ ~PreservesK(o.kind) /\ o.mac_equal
               \/ PreservesK(o.kind) /\ ~o.mac_equal /\ o.kind \notin Recutting
Check ==
    /\ \A i \in 1..Len(Obs) : Verdict(Obs[i]) # "ok" => PrintT(<<"VIOL", i, Verdict(Obs[i]), ToJson(Obs[i])>>)
    /\ \A i \in 1..Len(Obs) : Drift(Obs[i]) => PrintT(<<"DRIFT", i, ToJson(Obs[i])>>)
    /\ PrintT(<<"CHECK-DONE", Len(Obs), Cardinality({i \in 1..Len(Obs) : Verdict(Obs[i]) # "ok"})>>)

ASSUME IF Mode = "gen" THEN Gen ELSE Check

VARIABLE x
Init == x = 0
Next == x' = x
=============================================================================
