------------------------------- MODULE Tamper -------------------------------
(***************************************************************************)
(* C07: non-malleability of encapsulations.  Symbolic model of             *)
(* primitives::{c,h}_encaps / {c,h}_decaps: the three nested hashes are    *)
(* free constructors,                                                      *)
(*     T   = HT(c, [E_1..E_n])            (classic: HT(c, <<>>))           *)
(*     F_j = S xor HK(K1_j, K2_j, T)                                       *)
(*     U   = HU(T, [F_1..F_n])                                             *)
(*     tag = J(S, U)                                                       *)
(* and decapsulation recomputes T, U, unmasks every F with every held      *)
(* secret, compares the tag and re-derives the traps (Fujisaki-Okamoto).   *)
(* Tamper actions rewrite the components of an encapsulation; the module   *)
(* enumerates all sequences of at most two actions on 1- and 3-target,     *)
(* classic and hybridised encapsulations, decides by symbolic              *)
(* decapsulation what each key obtains, and states the property:           *)
(* unless the composition is the identity no key obtains a secret.         *)
(* Mode gen prints the cases (for the byte-level twins of the harness),    *)
(* mode check judges what the real library did with the real bytes.        *)
(***************************************************************************)
EXTENDS Naturals, Sequences, FiniteSets, TLC, Json, IOUtils

CONSTANTS NTraps      \* number of traps (tracing level + 1)

Mode == IF "MODE" \in DOMAIN IOEnv THEN IOEnv.MODE ELSE "gen"

(***************************************************************************)
(* Terms of the free algebra are flat sequences of strings, so that        *)
(* equality of any two terms is well-typed: Tm("T", <<a, b>>) is the       *)
(* token sequence  T( a , b ).                                             *)
(***************************************************************************)
RECURSIVE Join(_)
Join(args) == IF args = <<>> THEN <<>>
              ELSE IF Len(args) = 1 THEN args[1]
              ELSE args[1] \o <<",">> \o Join(Tail(args))
Tm(name, args) == <<name \o "(">> \o Join(args) \o <<")">>
At(name, n) == <<name \o ToString(n)>>
List(ts) == Tm("list", ts)
None == <<"-">>

(***************************************************************************)
(* Symbolic encapsulation of secret S_s with ElGamal random r_s under the  *)
(* public keys of targets 1..n (secret identifiers 1..n)                   *)
(***************************************************************************)
Sec(s) == At("S", s)
Traps(r) == [i \in 1..NTraps |-> Tm("trap", <<At("r", r), At("P", i)>>)]
Es(s, n, hyb) == [j \in 1..n |-> IF hyb THEN Tm("E", <<At("rnd", s), At("ek", j)>>) ELSE None]
HT(c, es, hyb) == Tm("T", <<List(c), IF hyb THEN List(es) ELSE None>>)
K1(k, a) == Tm("K1", <<At("sk", k), a>>)
PointR(r) == Tm("A", <<At("r", r)>>)
Pad(k1, k2, t) == Tm("HK", <<k1, k2, t>>)
Xor(s, pad) == Tm("xor", <<s, pad>>)
HU(t, fs) == Tm("U", <<t, List(fs)>>)
J(s, u) == Tm("J", <<s, u>>)
Fs(s, n, hyb) ==
    LET t == HT(Traps(s), Es(s, n, hyb), hyb)
    IN [j \in 1..n |-> Xor(Sec(s), Pad(K1(j, PointR(s)), IF hyb THEN Tm("K2", <<At("dk", j), Es(s, n, hyb)[j]>>) ELSE None, t))]
\* one fresh ElGamal random per fresh secret: r_s = G(S_s)
Enc(s, n, hyb) ==
    [tag |-> J(Sec(s), HU(HT(Traps(s), Es(s, n, hyb), hyb), Fs(s, n, hyb))),
     c |-> Traps(s), h |-> hyb, es |-> Es(s, n, hyb), fs |-> Fs(s, n, hyb),
     trail |-> FALSE]     \* trail: bytes left over after the announced elements (the deserializer refuses them)

(***************************************************************************)
(* Symbolic decapsulation by a key holding secret identifier k (0: none).  *)
(* Returns 0 (nothing) or the index of the recovered secret.               *)
(***************************************************************************)
\* A = sum of marker_i * c_i is the session point of r iff every trap is the original trap of r
PointOf(c) == IF \E r \in {1, 2} : c = Traps(r)
              THEN PointR(CHOOSE r \in {1, 2} : c = Traps(r)) ELSE Tm("A?", <<List(c)>>)
\* which known secret does F unmask to under pad (0: garbage)
Unmask(f, pad) == IF f = Xor(Sec(1), pad) THEN 1 ELSE IF f = Xor(Sec(2), pad) THEN 2 ELSE 0
TryEntry(enc, k, j) ==
    LET t == HT(enc.c, enc.es, enc.h)
        pad == Pad(K1(k, PointOf(enc.c)), IF enc.h THEN Tm("K2", <<At("dk", k), enc.es[j]>>) ELSE None, t)
        s == Unmask(enc.fs[j], pad)
    IN IF s # 0 /\ J(Sec(s), HU(t, enc.fs)) = enc.tag /\ Traps(s) = enc.c    \* tag, then Fujisaki-Okamoto
       THEN s ELSE 0
Decaps(enc, k) ==
    IF k = 0 \/ Len(enc.es) # Len(enc.fs) \/ enc.trail THEN 0
    ELSE LET hits == {TryEntry(enc, k, j) : j \in 1..Len(enc.fs)} \ {0}
         IN IF hits = {} THEN 0 ELSE CHOOSE s \in hits : TRUE

(***************************************************************************)
(* Tamper actions                                                          *)
(***************************************************************************)
Swap(s, i, j) == [x \in 1..Len(s) |-> IF x = i THEN s[j] ELSE IF x = j THEN s[i] ELSE s[x]]
Drop(s, i) == SubSeq(s, 1, i - 1) \o SubSeq(s, i + 1, Len(s))
Dup(s, i) == SubSeq(s, 1, i) \o SubSeq(s, i, Len(s))
Junk(t) == Tm("junk", <<t>>)

Actions(n) ==
    {[a |-> "corrupt_tag"]}
    \cup {[a |-> "corrupt_trap", i |-> i] : i \in 1..NTraps}
    \cup {[a |-> "corrupt_E", i |-> i] : i \in 1..n}
    \cup {[a |-> "corrupt_F", i |-> i] : i \in 1..n}
    \cup {[a |-> "swap_traps", i |-> 1, j |-> 2]}
    \cup {[a |-> "drop_trap", i |-> i] : i \in {1, NTraps}}
    \cup {[a |-> "dup_trap", i |-> 1]}
    \cup {[a |-> "swap_entries", i |-> i, j |-> j] : i \in 1..n, j \in 1..n}
    \cup {[a |-> "drop_entry", i |-> i] : i \in 1..n}
    \cup {[a |-> "dup_entry", i |-> i] : i \in 1..n}
    \cup {[a |-> "swap_E", i |-> i, j |-> j] : i \in 1..n, j \in 1..n}
    \cup {[a |-> "swap_F", i |-> i, j |-> j] : i \in 1..n, j \in 1..n}
    \cup {[a |-> "splice_tag"], [a |-> "splice_traps"], [a |-> "flip_flavour"]}
    \* the framing of the serialized form: the announced number of traps / of entries rewritten
    \cup {[a |-> "count_traps", d |-> d] : d \in {"up", "down"}}
    \cup {[a |-> "count_entries", d |-> d] : d \in {"up", "down", "far"}}
    \cup {[a |-> "splice_entry", i |-> i] : i \in 1..n}
    \cup {[a |-> "splice_E", i |-> i] : i \in 1..n}
    \cup {[a |-> "splice_F", i |-> i] : i \in 1..n}

Ok(x, enc) == ("i" \notin DOMAIN x \/ x.a \in {"corrupt_trap", "drop_trap", "dup_trap", "swap_traps"} \/ x.i <= Len(enc.fs))
              /\ ("j" \notin DOMAIN x \/ x.a = "swap_traps" \/ (x.j <= Len(enc.fs) /\ x.i < x.j))
              /\ (x.a \in {"corrupt_trap", "drop_trap", "dup_trap"} => x.i <= Len(enc.c))
              /\ (x.a = "swap_traps" => Len(enc.c) >= 2)
              /\ (x.a \in {"corrupt_E", "swap_E", "splice_E"} => enc.h)

\* other: a second encapsulation made under the same public key and policy
Act(x, enc, other) ==
    CASE x.a = "corrupt_tag" -> [enc EXCEPT !.tag = Junk(@)]
      [] x.a = "corrupt_trap" -> [enc EXCEPT !.c[x.i] = Junk(@)]
      [] x.a = "corrupt_E" -> [enc EXCEPT !.es[x.i] = Junk(@)]
      [] x.a = "corrupt_F" -> [enc EXCEPT !.fs[x.i] = Junk(@)]
      [] x.a = "swap_traps" -> [enc EXCEPT !.c = Swap(@, x.i, x.j)]
      [] x.a = "drop_trap" -> [enc EXCEPT !.c = Drop(@, x.i)]
      [] x.a = "dup_trap" -> [enc EXCEPT !.c = Dup(@, x.i)]
      [] x.a = "swap_entries" -> [enc EXCEPT !.es = Swap(@, x.i, x.j), !.fs = Swap(@, x.i, x.j)]
      [] x.a = "drop_entry" -> [enc EXCEPT !.es = Drop(@, x.i), !.fs = Drop(@, x.i)]
      [] x.a = "dup_entry" -> [enc EXCEPT !.es = Dup(@, x.i), !.fs = Dup(@, x.i)]
      [] x.a = "swap_E" -> [enc EXCEPT !.es = Swap(@, x.i, x.j)]
      [] x.a = "swap_F" -> [enc EXCEPT !.fs = Swap(@, x.i, x.j)]
      [] x.a = "splice_tag" -> [enc EXCEPT !.tag = other.tag]
      [] x.a = "splice_traps" -> [enc EXCEPT !.c = other.c]
      [] x.a = "splice_entry" -> [enc EXCEPT !.es[x.i] = other.es[x.i], !.fs[x.i] = other.fs[x.i]]
      [] x.a = "splice_E" -> [enc EXCEPT !.es[x.i] = other.es[x.i]]
      [] x.a = "splice_F" -> [enc EXCEPT !.fs[x.i] = other.fs[x.i]]
      \* one more trap is read out of what follows: everything after it is misaligned
      [] x.a = "count_traps" -> IF x.d = "up"
                                THEN [enc EXCEPT !.c = @ \o <<Junk(List(@))>>,
                                                 !.es = [j \in 1..Len(@) |-> Junk(@[j])], !.fs = [j \in 1..Len(@) |-> Junk(@[j])]]
                                ELSE [enc EXCEPT !.c = SubSeq(@, 1, Len(@) - 1), !.trail = TRUE,
                                                 !.es = [j \in 1..Len(@) |-> Junk(@[j])], !.fs = [j \in 1..Len(@) |-> Junk(@[j])]]
      \* more entries announced than present (read beyond the end), or fewer (trailing bytes / a shorter list)
      [] x.a = "count_entries" -> IF x.d = "down"
                                  THEN [enc EXCEPT !.es = SubSeq(@, 1, Len(@) - 1), !.fs = SubSeq(@, 1, Len(@) - 1), !.trail = TRUE]
                                  ELSE [enc EXCEPT !.es = @ \o <<Junk(<<x.d>>)>>, !.fs = @ \o <<Junk(<<x.d>>)>>]
      [] x.a = "flip_flavour" -> [enc EXCEPT !.h = ~@, !.es = [j \in 1..Len(@) |-> Junk(@[j])],
                                             !.fs = [j \in 1..Len(@) |-> Junk(@[j])]]

(***************************************************************************)
(* Cases: original x (one or two actions)                                  *)
(***************************************************************************)
Origs == {[n |-> n, hyb |-> h] : n \in {1, 3}, h \in BOOLEAN}
E1(o) == Enc(1, o.n, o.hyb)
E2(o) == Enc(2, o.n, o.hyb)
Seqs(o) == {<<x>> : x \in {y \in Actions(o.n) : Ok(y, E1(o))}}
           \* (flipping the flavour flag twice restores the bytes: excluded)
           \cup {p \in {<<x, y>> : x \in {z \in Actions(o.n) : Ok(z, E1(o))}, y \in Actions(o.n)} :
                     /\ ~(p[1].a = "flip_flavour" /\ p[2].a = "flip_flavour")
                     \* (two rewrites of the same count byte: the last one wins in the bytes)
                     /\ ~(p[1].a = p[2].a /\ p[1].a \in {"count_traps", "count_entries"})}
Result(o, sq) ==
    LET e1 == Act(sq[1], E1(o), E2(o))
    IN IF Len(sq) = 1 THEN e1
       ELSE IF Ok(sq[2], e1) THEN Act(sq[2], e1, E2(o)) ELSE e1
Valid(o, sq) == Len(sq) = 1 \/ Ok(sq[2], Act(sq[1], E1(o), E2(o)))
Keys(o) == {0, 1, o.n}          \* unauthorised, authorised for the first target, for the last target
CaseRec(o, sq) ==
    LET e == Result(o, sq)
    IN [n |-> o.n, hyb |-> o.hyb, actions |-> sq, identity |-> e = E1(o),
        \* what the symbolic decapsulation yields per key: 0 = nothing, 1 = the original secret, 2 = the spliced one
        model |-> [k \in Keys(o) |-> Decaps(e, k)]]

\* THE PROPERTY on the symbolic model: a secret comes out only of the untouched encapsulation
NonMalleable(o, sq) ==
    LET r == CaseRec(o, sq)
    IN \A k \in Keys(o) : IF r.identity THEN (k # 0 => r.model[k] = 1) ELSE r.model[k] = 0

Gen ==
    /\ \A o \in Origs : \A k \in Keys(o) : Decaps(E1(o), k) = (IF k = 0 THEN 0 ELSE 1)
    /\ \A o \in Origs : \A sq \in Seqs(o) : Valid(o, sq) => NonMalleable(o, sq)
    /\ \A o \in Origs : \A sq \in Seqs(o) : Valid(o, sq) =>
          PrintT(<<"CASE", ToJson([n |-> o.n, hyb |-> o.hyb, actions |-> sq, identity |-> CaseRec(o, sq).identity])>>)
    /\ PrintT(<<"GEN-DONE", Cardinality(UNION {{<<o, sq>> : sq \in {s \in Seqs(o) : Valid(o, s)}} : o \in Origs})>>)

(***************************************************************************)
(* Check mode: one record per (case, key class) aggregated over the        *)
(* byte-level expansions: counts of same / none / err / diff / panic       *)
(***************************************************************************)
Obs == IF Mode = "check" THEN ndJsonDeserialize(IOEnv.TRACE) ELSE <<>>
Verdict(o) ==
    IF o.diff > 0 THEN "different-secret"
    ELSE IF o.panic > 0 THEN "panic"
    ELSE IF o.identity THEN (IF o.key # "unauth" /\ o.same # o.total THEN "untouched-rejected"
                             ELSE IF o.key = "unauth" /\ o.same > 0 THEN "unauthorised-opens" ELSE "ok")
    ELSE IF o.same > 0 THEN "tampered-accepted"
    ELSE "ok"
Check ==
    /\ \A i \in 1..Len(Obs) : Verdict(Obs[i]) # "ok" => PrintT(<<"VIOL", i, Verdict(Obs[i]), ToJson(Obs[i])>>)
    /\ PrintT(<<"CHECK-DONE", Len(Obs), Cardinality({i \in 1..Len(Obs) : Verdict(Obs[i]) # "ok"})>>)

ASSUME IF Mode = "gen" THEN Gen ELSE Check

VARIABLE x
Init == x = 0
Next == x' = x
=============================================================================
