"""C13: golden vectors of the pinned release loaded with the current tree."""
import json
import os

from common import VERIF, run_harness


def run(wd):
    cov = {"golden_checks": 0}
    viols = []
    for feat in ("default", "alt"):
        path = os.path.join(VERIF, "golden", f"{feat}.json")
        p = run_harness(["golden-check", "--in", path], features=feat)
        res = json.loads(p.stdout.strip().splitlines()[-1])
        cov["golden_checks"] += res["checks"]
        for f in res["failures"]:
            viols.append({"p": ["C13"], "what": "object serialized by the pinned release no longer works",
                          "cause": "golden", "detail": [feat, f], "hist": 0, "line": 0})
    return cov, viols
