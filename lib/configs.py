"""TLC configurations of the lifecycle model (Covercrypt.tla via MC_Life.tla):
exhaustive checking within small constants, simulation for behaviours that are
replayed on the real library, and named-deviation self-tests."""
import json
import os
import re

from common import SPEC, log, seed, tlc

ALL_INV = ["TypeOK", "GhostOk", "ContractOk", "CompleteHeld", "SoundHeld", "CompleteOpens", "SoundOpens", "FlavourOk"]

# name -> dict(consts quick/thorough, ops, script, constraint)
BASE = dict(Dims='{"D1", "D2"}', Kind="<- MCKind", Names='{"a", "b"}', Users='{"u1", "u2"}',
            EncIds='{"e1", "e2"}', Pols="<- MCPolsMid", Hints="{FALSE}", MaxAttrs=3, MaxUid=3,
            MaxSid=12, MaxMpk=3, MaxEvents=0, IdFromCount="TRUE", Script="<- Script_HA", Mut="{}")

CONFIGS = {
    "Rotation": dict(
        ops=["Rekey", "KeyGen", "Refresh", "Encaps"],
        quick=dict(MaxSid=9, Users='{"u1"}', EncIds='{"e1"}', MaxMpk=5, Script="<- Script_A", Dims='{"D2"}'),
        thorough=dict(MaxSid=14, MaxMpk=4, Users='{"u1"}', EncIds='{"e1", "e2"}')),
    "Revocation": dict(
        ops=["Rekey", "Prune", "DelAttr", "Update", "KeyGen", "Refresh", "Encaps"],
        quick=dict(MaxSid=8, Users='{"u1"}', EncIds='{"e1"}', MaxMpk=4, Pols="<- MCPolsSmall",
                   Script="<- Script_A", Dims='{"D2"}'),
        thorough=dict(MaxSid=14, Users='{"u1"}', EncIds='{"e1"}', MaxMpk=4, Pols="<- MCPolsSmall")),
    "Disable": dict(
        ops=["Disable", "Update", "Rekey", "Prune", "KeyGen", "Refresh", "Encaps", "RoundTrip"],
        quick=dict(MaxSid=8, Users='{"u1"}', EncIds='{"e1"}', MaxMpk=4, Pols="<- MCPolsSmall",
                   Script="<- Script_A", Dims='{"D2"}'),
        thorough=dict(MaxSid=14, Users='{"u1"}', EncIds='{"e1"}', MaxMpk=4, Pols="<- MCPolsSmall")),
    "Edits": dict(
        ops=["AddAttr", "DelAttr", "Rename", "Update", "KeyGen", "Refresh", "Encaps"],
        ops_quick=["AddAttr", "DelAttr", "Rename", "Update", "KeyGen", "Encaps"],
        quick=dict(Script="<- Script_A", Dims='{"D2"}', Names='{"a", "b", "c"}', MaxAttrs=3, MaxUid=3, MaxSid=5,
                   Users='{"u1"}', EncIds='{"e1"}', MaxMpk=3, Pols="<- MCPolsSmall", IdFromCount="FALSE"),
        thorough=dict(Script="<- Script_HA", MaxAttrs=4, MaxUid=5, MaxSid=11, Users='{"u1"}', EncIds='{"e1"}',
                      MaxMpk=4, Pols="<- MCPolsSmall", IdFromCount="FALSE", Names='{"a", "b", "c"}')),
    "Alias": dict(   # as coded: the identifier is the live count -- expected to violate (known finding)
        ops=["AddAttr", "DelAttr", "Update", "KeyGen", "Encaps"],
        constraint="Bound",
        quick=dict(Script="<- Script_A", Dims='{"D2"}', Names='{"a", "b", "c"}', MaxAttrs=3, MaxUid=4, MaxSid=7,
                   Users='{"u1"}', EncIds='{"e1"}', MaxMpk=3, Pols="<- MCPolsSmall"),
        thorough=None),
    "Recaps": dict(
        ops=["Rekey", "Prune", "Disable", "Update", "Encaps", "Recaps", "KeyGen", "Refresh"],
        ops_quick=["Rekey", "Prune", "Disable", "Update", "Encaps", "Recaps"],
        quick=dict(MaxSid=6, Users='{"u1"}', EncIds='{"e1", "e2"}', MaxMpk=4, Pols="<- MCPolsFull",
                   Script="<- Script_A", Dims='{"D2"}'),
        thorough=dict(MaxSid=10, Users='{"u1"}', EncIds='{"e1", "e2"}', MaxMpk=4, Pols="<- MCPolsFull",
                      Script="<- Script_A", Dims='{"D2"}')),
    "Static": dict(
        ops=["KeyGen", "Encaps"],
        quick=dict(Script="<- Script_HA_hyb", Hints="{FALSE, TRUE}", MaxAttrs=4, MaxUid=4, Pols="<- MCPolsFull",
                   Users='{"u1"}', EncIds='{"e1"}'),
        thorough=dict(Script="<- Script_HA_hyb", Hints="{FALSE, TRUE}", MaxAttrs=4, MaxUid=4, Pols="<- MCPolsFull",
                      Users='{"u1", "u2"}', EncIds='{"e1", "e2"}')),
    "StaticHH": dict(
        ops=["KeyGen", "Encaps"],
        quick=dict(Script="<- Script_2x2", Kind="<- MCKindHH", Hints="{FALSE, TRUE}", MaxAttrs=4, MaxUid=4, Pols="<- MCPolsFull",
                   Users='{"u1"}', EncIds='{"e1"}'),
        thorough=dict(Script="<- Script_2x2", Kind="<- MCKindHH", Hints="{FALSE, TRUE}", MaxAttrs=4, MaxUid=4, Pols="<- MCPolsFull",
                      Users='{"u1", "u2"}', EncIds='{"e1", "e2"}')),
    "StaticAA": dict(
        ops=["KeyGen", "Encaps"],
        quick=dict(Script="<- Script_2x2", Kind="<- MCKindAA", Hints="{FALSE, TRUE}", MaxAttrs=4, MaxUid=4, Pols="<- MCPolsFull",
                   Users='{"u1"}', EncIds='{"e1"}'),
        thorough=dict(Script="<- Script_2x2", Kind="<- MCKindAA", Hints="{FALSE, TRUE}", MaxAttrs=4, MaxUid=4, Pols="<- MCPolsFull",
                      Users='{"u1", "u2"}', EncIds='{"e1", "e2"}')),
    "Static3": dict(
        ops=["KeyGen", "Encaps"],
        quick=dict(Script="<- Script_3dims", Dims='{"D1", "D2", "D3"}', Hints="{FALSE, TRUE}", MaxAttrs=4, MaxUid=4, MaxSid=20,
                   Pols="<- MCPolsMid", Users='{"u1"}', EncIds='{"e1"}'),
        thorough=dict(Script="<- Script_3dims", Dims='{"D1", "D2", "D3"}', Hints="{FALSE, TRUE}", MaxAttrs=4, MaxUid=4, MaxSid=20,
                      Pols="<- MCPolsFull", Users='{"u1"}', EncIds='{"e1", "e2"}')),
    "StaleMpk": dict(   # public keys re-derived between an edit and the next update, and used late
        ops=["Disable", "DelAttr", "Rename", "Update", "Mpk", "Encaps", "KeyGen", "Rekey"],
        ops_quick=["Disable", "DelAttr", "Update", "Mpk", "Encaps", "KeyGen"],
        quick=dict(MaxSid=6, Users='{"u1"}', EncIds='{"e1"}', MaxMpk=4, Pols="<- MCPolsSmall",
                   Script="<- Script_A", Dims='{"D2"}', Names='{"a", "b", "c"}', IdFromCount="FALSE"),
        thorough=dict(MaxSid=12, Users='{"u1"}', EncIds='{"e1"}', MaxMpk=4, Pols="<- MCPolsSmall",
                      Names='{"a", "b", "c"}', IdFromCount="FALSE")),
    "Ids": dict(
        ops=["KeyGen", "Refresh", "Clone", "RoundTrip", "Rekey", "Save", "Restore", "DropUsk"],
        ops_quick=["KeyGen", "Refresh", "RoundTrip", "Save", "Restore", "Rekey"],
        quick=dict(MaxSid=5, Users='{"u1", "u2"}', EncIds='{"e1"}', Pols="<- MCPolsSmall", MaxMpk=3,
                   Script="<- Script_A", Dims='{"D2"}'),
        thorough=dict(MaxSid=10, Users='{"u1", "u2", "u3"}', EncIds='{"e1"}', Pols="<- MCPolsSmall", MaxMpk=3)),
}

FOR_PROP = {
    "C01": ["Static", "StaticHH", "StaticAA", "Static3"], "C02": ["Static", "StaticHH", "StaticAA", "Static3"],
    "C11": ["Static", "StaticHH", "Disable"],
    "C03": ["Edits", "Alias", "StaleMpk"], "C04": ["Rotation"], "C05": ["Revocation"], "C06": ["Disable", "StaleMpk"],
    "C09": ["Edits", "Revocation"], "C10": ["Revocation", "Edits"], "C13": ["Ids"], "C16": ["Rotation"],
    "C17": ["Ids"], "C18": ["Recaps"],
}

# named deviations (defects repaired in the code) that TLC must catch: binding of the invariants
SELFTEST = {
    "C04": ("Rotation", '{"shortest_chain"}'),
    "C05": ("Revocation", '{"stale_kept"}'),
    "C06": ("Disable", '{"rekey_reactivates"}'),
    "C09": ("Revocation", '{"nokeep_fails"}'),
    "C18": ("Recaps", '{"recaps_unpublished_fails"}'),
}


def write_cfg(path, name, tier, mut=None, simulate=False):
    c = CONFIGS[name]
    consts = dict(BASE)
    consts.update(c[tier] or c["quick"])
    if simulate:
        # behaviours are replayed on the real library: identifiers as coded (states with aliasing are cut)
        consts["IdFromCount"] = "TRUE"
    if mut:
        consts["Mut"] = mut
    ops = c.get("ops_quick", c["ops"]) if tier == "quick" else c["ops"]
    consts["Ops"] = "{" + ", ".join(f'"{o}"' for o in ops) + "}"
    lines = ["SPECIFICATION Spec", "CONSTANTS"]
    for k, v in consts.items():
        v = str(v)
        lines.append(f"  {k} {v}" if v.startswith("<-") else f"  {k} = {v}")
    lines.append("CONSTRAINT " + c.get("constraint", "BoundNoAlias"))
    lines.append("VIEW view")
    for inv in ALL_INV:
        lines.append("INVARIANT " + inv)
    if not simulate:
        lines.append("PROPERTY StepProps")
    lines.append("CHECK_DEADLOCK FALSE")
    with open(path, "w") as f:
        f.write("\n".join(lines) + "\n")


ACT = re.compile(r"^<(\w+) line \d+, col \d+ to line \d+, col \d+ of module Covercrypt(?: \((\d+) \d+ (\d+) \d+\))?>: (\d+):(\d+)", re.M)
_SRC = None


def action_coverage(out):
    """distinct:generated per action disjunct of Next, from the final -coverage block."""
    global _SRC
    if _SRC is None:
        with open(os.path.join(SPEC, "Covercrypt.tla")) as f:
            _SRC = f.read().splitlines()
    cov = {}
    for m in ACT.finditer(out):
        name = m.group(1)
        if name == "Free" and m.group(2):
            text = " ".join(_SRC[int(m.group(2)) - 1:int(m.group(3))])
            mm = re.search(r"(\w+A)\b", text)
            name = mm.group(1) if mm else f"Free@{m.group(2)}"
        cov[name] = [int(m.group(4)), int(m.group(5))]
    return {k: v for k, v in cov.items() if v[1] > 0}


def violated_name(out):
    m = re.search(r"Invariant (\w+) is violated", out)
    if m:
        return m.group(1)
    if "Action property" in out and "violated" in out:
        m = re.search(r"Action property (\w+)", out)
        return m.group(1) if m else "StepProps"
    return None


def counterexample(out):
    """The `last` records of the counterexample trace, as op list."""
    ops = []
    for m in re.finditer(r"/\\ last = (\[.*?\])\n", out, re.S):
        ops.append(re.sub(r"\s+", " ", m.group(1)))
    return ops


def run_mc(name, tier, wd, workers=10, timeout=None):
    cfg = os.path.join(wd, f"MC_{name}_{tier}.cfg")
    write_cfg(cfg, name, tier)
    timeout = timeout or (150 if tier == "quick" else 900)
    r = tlc(os.path.join(SPEC, "MC_Life.tla"), cfg, wd, workers=workers, timeout=timeout, xmx="12g",
            extra=["-coverage", "1000"])
    out = r["out"]
    res = dict(config=name, tier=tier, generated=r["generated"], distinct=r["distinct"],
               completed="Model checking completed" in out, timed_out=r["timeout"], violations=[],
               actions=action_coverage(out))
    if not r["generated"]:
        m = re.findall(r"(\d[\d,]*) states generated .*?(\d[\d,]*) distinct states found", out)
        if m:
            res["generated"] = int(m[-1][0].replace(",", ""))
            res["distinct"] = int(m[-1][1].replace(",", ""))
    inv = violated_name(out)
    if inv:
        cex = counterexample(out)
        path = os.path.join(wd, f"mc_{name}_counterexample.ndjson")
        with open(path, "w") as f:
            f.write(json.dumps({"k": "reset", "source": f"tlc counterexample {name} {inv}"}) + "\n")
            for op in states_to_ops(out):
                f.write(json.dumps(op) + "\n")
        with open(path + ".txt", "w") as f:
            f.write("\n".join(cex) + "\n\n" + out[-20000:])
        # the alias configuration is expected to fail: identifier reuse is a listed finding
        known = name == "Alias"
        res["violations"].append(dict(
            what=f"TLC: {inv} violated in configuration {name} "
                 + ("(identifier := live count lets two attributes share rights; finding F-ALIAS)" if known else ""),
            known=known, replay=path, invariant=inv, steps=len(cex)))
    elif r["error"] and not r["timeout"]:
        from common import ToolError
        raise ToolError(f"TLC error in configuration {name}:\n" + "\n".join(out.splitlines()[-30:]))
    elif name == "Alias":
        res["note"] = "the alias configuration did not reproduce the listed finding within its bounds"
    return res


def op_of(last, res=None, obs=None):
    """Harness op from the model's `last` record (plus what the model predicts)."""
    if not isinstance(last, dict) or last.get("op") in (None, "init"):
        return None
    op = dict(last)
    if op.get("after") == "":
        op.pop("after")
    if res is not None:
        op["model_res"] = res
    if obs is not None:
        op["model_opens"] = sorted(obs.get("$set", []) if isinstance(obs, dict) else obs)
    return op


def _pairs(x):
    """(key, value) pairs of a TLA function printed as record, as explicit function or as empty tuple."""
    if isinstance(x, dict):
        if "$fn" in x:
            return [(k, v) for k, v in x["$fn"]]
        return list(x.items())
    return []


def model_shape(v, u):
    """Chain lengths / head flags of the model's master key and of the user key the op touched,
    in the canonical text form the harness logs for the real objects."""
    if "msk" not in v:
        return None
    items = []
    for _, chain in _pairs(v["msk"]):
        if not chain:
            items.append("0:0:0")
            continue
        items.append(f"{len(chain)}:{int(chain[0]['a'])}:{int(chain[0]['h'])}")
    shape = {"msk": ",".join(sorted(items))}
    if u:
        for name, key in _pairs(v.get("usk", [])):
            if name == u:
                lens = sorted(len(c["c"]) for c in key["ch"])
                shape["usk"] = ",".join(str(x) for x in lens)
    return shape


def states_to_ops(text):
    """Op list from a TLC state dump (simulation trace file or counterexample)."""
    import tlaval
    ops = []
    for chunk in re.split(r"\n(?=(?:STATE_\d+ ==|State \d+:))", text):
        if "/\\ last = " not in chunk:
            continue
        body = chunk[chunk.index("/\\"):]
        body = body.split("\n\n")[0]
        v = tlaval.state_vars(body)
        op = op_of(v.get("last"), v.get("res"), v.get("obs"))
        if op:
            shape = model_shape(v, op.get("u"))
            if shape:
                op["model_shape"] = shape
            ops.append(op)
    return ops


def simulate(name, tier, wd, num, depth):
    """Behaviours of the model by TLC simulation, written as an op file for the harness
    (each op carries the result and the decapsulation matrix the model predicts)."""
    import glob
    import shutil
    cfg = os.path.join(wd, f"SIM_{name}_{tier}.cfg")
    write_cfg(cfg, name, "thorough" if CONFIGS[name]["thorough"] else "quick", simulate=True)
    sim_dir = os.path.join(wd, f"sim_{name}")
    shutil.rmtree(sim_dir, ignore_errors=True)
    os.makedirs(sim_dir)
    r = tlc(os.path.join(SPEC, "MC_Life.tla"), cfg, wd, workers=1, timeout=600, xmx="4g",
            simulate=f"file={sim_dir}/b,num={num}", extra=["-depth", str(depth), "-seed", str(seed())])
    ops_path = os.path.join(wd, f"behaviours_{name}.ndjson")
    n = 0
    with open(ops_path, "w") as f:
        for tf in sorted(glob.glob(os.path.join(sim_dir, "b_*"))):
            with open(tf) as g:
                ops = states_to_ops(g.read())
            if not ops:
                continue
            f.write(json.dumps({"k": "reset", "source": f"tlc-simulate {name}"}) + "\n")
            n += 1
            for op in ops:
                f.write(json.dumps(op) + "\n")
    shutil.rmtree(sim_dir, ignore_errors=True)
    return dict(config="simulate:" + name, behaviours=ops_path, n_behaviours=n,
                generated=r["generated"], distinct=r["distinct"])



# ---------------------------------------------------------------- exhaustive short sequences (MC_Seq.tla)
# TLC enumerates EVERY sequence of K free operations (over a small set of operations and arguments) after a
# scripted prefix; each is replayed on the real library and validated like any other behaviour.
SEQ = {
    # every sequence of K operations among rekey / prune / refresh(keep, no keep) on one key holding two rights
    "SeqRot": dict(consts=dict(Dims='{"D2"}', Names='{"a", "b"}', Users='{"u1"}', EncIds='{"e1", "e2"}', Pols="<- MCPolsSmall",
                               MaxSid=30, MaxMpk=9, Script="<- Script_A_key"),
                   ops=["Rekey", "Prune", "Refresh"], K=dict(quick=3, thorough=4)),
    # disable / update / rekey / prune / mpk() / refresh
    "SeqDis": dict(consts=dict(Dims='{"D2"}', Names='{"a", "b"}', Users='{"u1"}', EncIds='{"e1", "e2"}', Pols="<- MCPolsSmall",
                               MaxSid=30, MaxMpk=9, Script="<- Script_A_key"),
                   ops=["Disable", "Update", "Rekey", "Mpk", "Refresh"], K=dict(quick=3, thorough=4)),
    # master key stored and reloaded / structure edits / key generation on an out-of-rank-order hierarchy
    "SeqReload": dict(consts=dict(Dims='{"D1", "D2"}', Names='{"a", "b", "c"}', Users='{"u1", "u2"}', EncIds='{"e1", "e2"}',
                                  Pols="<- MCPolsSmall", Hints="{FALSE, TRUE}", MaxAttrs=5, MaxUid=5, MaxSid=40, MaxMpk=8,
                                  Script="<- Script_OutOfOrder"),
                      ops=["RoundTrip", "Disable", "Update", "KeyGen", "Refresh"], K=dict(quick=2, thorough=3)),
    # re-encapsulation of a two-target encapsulation after rotations and disables
    "SeqRecaps": dict(consts=dict(Dims='{"D2"}', Names='{"a", "b"}', Users='{"u1"}', EncIds='{"e1", "e2"}', Pols="<- MCPolsSmall",
                                  MaxSid=30, MaxMpk=5, Script="<- Script_A_two"),
                      ops=["Rekey", "Disable", "Update", "Recaps"], K=dict(quick=3, thorough=4)),
}
SEQ_FOR_PROP = {"C01": ["SeqRot"], "C04": ["SeqRot"], "C05": ["SeqRot"], "C06": ["SeqDis"], "C09": ["SeqDis"],
                "C02": ["SeqReload"], "C03": ["SeqReload"], "C11": ["SeqReload"], "C13": ["SeqReload"], "C18": ["SeqRecaps"]}


def seq_behaviours(name, tier, wd):
    c = SEQ[name]
    consts = dict(BASE)
    consts.update(c["consts"])
    consts["IdFromCount"] = "TRUE"
    consts["Ops"] = "{" + ", ".join(f'"{o}"' for o in c["ops"]) + "}"
    consts["K"] = c["K"][tier]
    cfg = os.path.join(wd, f"SEQ_{name}_{tier}.cfg")
    lines = ["SPECIFICATION SSpec", "CONSTANTS"]
    for k, v in consts.items():
        v = str(v)
        lines.append(f"  {k} {v}" if v.startswith("<-") else f"  {k} = {v}")
    lines += ["CONSTRAINT Depth", "CONSTRAINT BoundNoAlias", "VIEW sview", "INVARIANT Emit"]
    lines += ["INVARIANT " + i for i in ALL_INV]
    lines.append("CHECK_DEADLOCK FALSE")
    with open(cfg, "w") as f:
        f.write("\n".join(lines) + "\n")
    r = tlc(os.path.join(SPEC, "MC_Seq.tla"), cfg, wd, workers=8, timeout=900, xmx="8g")
    out = r["out"]
    inv = violated_name(out)
    res = dict(config="sequences:" + name, tier=tier, K=c["K"][tier], operations=c["ops"], generated=r["generated"], distinct=r["distinct"],
               completed="Model checking completed" in out, violations=[])
    if inv:
        path = os.path.join(wd, f"seq_{name}_counterexample.txt")
        with open(path, "w") as f:
            f.write(out[-20000:])
        res["violations"].append(dict(what=f"TLC: {inv} violated in the sequence enumeration {name}", known=False, replay=path,
                                      invariant=inv, steps=0))
        return res
    if not res["completed"] and not r["timeout"]:
        from common import ToolError
        raise ToolError(f"TLC error in sequence enumeration {name}:\n" + "\n".join(out.splitlines()[-30:]))
    ops_path = os.path.join(wd, f"sequences_{name}.ndjson")
    n = 0
    with open(ops_path, "w") as f:
        for line in out.splitlines():
            if not line.startswith('<<"REPLAY"'):
                continue
            body = line[line.index(",") + 1:line.rindex(">>")].strip()
            hist = json.loads(json.loads(body))
            f.write(json.dumps({"k": "reset", "source": f"tlc-sequences {name} K={c['K'][tier]}"}) + "\n")
            n += 1
            for h in hist:
                op = op_of(h["call"])     # (what the model predicts is compared by MTrace on every trace)
                if op:
                    f.write(json.dumps(op) + "\n")
    res["behaviours"] = ops_path
    res["n_behaviours"] = n
    return res


def selftest(prop, wd):
    """Re-enables a repaired defect in the MODEL and requires TLC to catch it."""
    if prop not in SELFTEST:
        return None
    name, mut = SELFTEST[prop]
    cfg = os.path.join(wd, f"SELF_{name}.cfg")
    write_cfg(cfg, name, "quick", mut=mut)
    r = tlc(os.path.join(SPEC, "MC_Life.tla"), cfg, wd, workers=10, timeout=240, xmx="12g")
    inv = violated_name(r["out"])
    return dict(config=name, deviation=mut, caught=bool(inv), invariant=inv, steps=len(counterexample(r["out"])))


def run_for(prop, tier, wd):
    res = []
    for name in FOR_PROP.get(prop, []):
        if tier == "thorough" and CONFIGS[name]["thorough"] is None and name != "Alias":
            continue
        m = run_mc(name, tier if CONFIGS[name][tier] else "quick", wd)
        log(f"[mc] {name}/{tier}: {m['distinct']} distinct, {m['generated']} generated, completed={m['completed']}, "
            f"violations={len(m['violations'])}")
        res.append(m)
    # inductive arguments for all histories of one right (TLC cross-check always, Apalache in the thorough tier)
    import inductive
    for m in inductive.run_for(prop, tier, wd):
        log(f"[inductive] {m['config']}/{tier}: {len(m['obligations'])} obligations, violations={len(m['violations'])}")
        res.append(m)
    # behaviours of the model, replayed on the real code
    names = [n for n in FOR_PROP.get(prop, []) if n != "Alias"]
    # (quick: of the first configuration; thorough: of every configuration)
    for n in (names[:1] if tier == "quick" else names):
        num, depth = (40, 22) if tier == "quick" else (400, 30)
        s = simulate(n, tier, wd, num, depth)
        log(f"[sim] {n}: {s['n_behaviours']} behaviours")
        res.append(s)
    for n in SEQ_FOR_PROP.get(prop, []):
        m = seq_behaviours(n, tier, wd)
        log(f"[seq] {n}/{tier}: every sequence of {m['K']} operations among {m['operations']}: {m.get('n_behaviours', 0)} behaviours")
        res.append(m)
    if tier == "thorough":
        st = selftest(prop, wd)
        if st:
            log(f"[selftest] {st}")
            res.append(dict(config="selftest:" + st["config"], selftest=st, generated=0, distinct=0))
    return res
