"""Checks of the history-quantified properties: TLC on the lifecycle model,
behaviours and random histories executed on the real library, observed traces
validated against CCSpec by TLC (PTrace.tla)."""
import glob
import json
import os
import re
import time

from common import (SPEC, VERIF, ToolError, brief_ops, build_harness, classify, history_ops, log,
                    parallel, ptrace, run_harness, seed, workdir, write_evidence)
import mc

# per property: random-driver profiles (name, quick histories, thorough histories, steps or None),
# feature sets, and the rule that makes a history non-trivial for it
PLAN = {
    "C01": dict(profiles=[("static", 48, 480, None), ("full", 16, 120, None), ("edits", 8, 80, None), ("grow", 8, 80, None)], features=["default", "alt"],
                nontrivial=lambda s: s["mustopen"] > 0,
                rule="history in which at least one (key, encapsulation) pair is obliged to open by the cover relation"),
    "C02": dict(profiles=[("static", 48, 480, None), ("full", 16, 120, None), ("edits", 8, 80, None), ("grow", 8, 80, None)], features=["default", "alt"],
                nontrivial=lambda s: s["mustnot"] > 0,
                rule="history in which at least one (key, encapsulation) pair is forbidden to open"),
    "C03": dict(profiles=[("edits", 40, 400, None), ("grow", 24, 200, None), ("big", 8, 80, None)], features=["default"],
                nontrivial=lambda s: s["after_edit_pairs"] > 0 and s["edits"] > 0,
                rule="history with structure edits followed by judged (key, encapsulation) pairs"),
    "C04": dict(profiles=[("rotation", 56, 500, None), ("full", 8, 100, None)], features=["default"],
                nontrivial=lambda s: s["rekeys"] > 0 and (s["stale_pairs"] > 0 or s["after_refresh_opens"] > 0),
                rule="history with a rekey and either a stale key judged against a newer encapsulation or a refreshed key obliged to open"),
    "C05": dict(profiles=[("revocation", 56, 500, None), ("full", 8, 100, None)], features=["default"],
                nontrivial=lambda s: s["removed_pairs"] > 0 or (s["prunes"] > 0 and s["refresh_keep"] + s["refresh_nokeep"] > 0),
                rule="history with a prune/deletion followed by a refresh, or a key judged against a removed secret"),
    "C06": dict(profiles=[("disable", 56, 500, None), ("full", 8, 100, None)], features=["default"],
                nontrivial=lambda s: s["disabled_encaps"] > 0,
                rule="history in which encapsulation for an unpublished (disabled / absent) right was attempted and had to fail"),
    "C09": dict(profiles=[("full", 40, 300, None), ("edits", 16, 150, None), ("big", 6, 60, None)], features=["default"],
                nontrivial=lambda s: s["contract_err"] > 0,
                rule="history containing at least one call the contract obliges to fail"),
    "C10": dict(profiles=[("full", 40, 300, None), ("edits", 16, 150, None), ("revocation", 10, 100, None)], features=["default"],
                nontrivial=lambda s: s["failing_unchanged"] > 0,
                rule="history with a failing call on a master/user key whose before/after state was compared"),
    "C11": dict(profiles=[("static", 24, 240, None), ("full", 32, 250, None), ("edits", 16, 120, None)], features=["default", "alt"],
                nontrivial=lambda s: s["encaps"] > 0 and s["keygens"] > 0,
                rule="history with encapsulations and keys whose flavours were compared with the hints"),
    "C13": dict(profiles=[("full", 40, 300, None), ("disable", 16, 120, None), ("crowd", 4, 30, None)], features=["default", "alt"],
                nontrivial=lambda s: s["roundtrips"] > 0,
                rule="history with at least one injected serialization round trip whose object replaced the original"),
    "C16": dict(profiles=[("full", 40, 300, None), ("rotation", 16, 120, None)], features=["default"],
                nontrivial=lambda s: s["fresh_values"] > 20,
                rule="history creating more than 20 values that must be fresh"),
    "C17": dict(profiles=[("ids", 48, 440, None), ("crowd", 8, 60, None), ("full", 8, 80, None)], features=["default"],
                nontrivial=lambda s: s["usk_checks"] > 0,
                rule="history with key generations / refreshes whose registration and tracing relation were read through the hook"),
    "C18": dict(profiles=[("recaps", 56, 500, None), ("full", 8, 80, None)], features=["default"],
                nontrivial=lambda s: s["recaps"] > 0,
                rule="history with at least one successful re-encapsulation"),
}

ASSUMPTIONS = [
    "cryptography is symbolic in the specification: secrets are opaque tokens, hashes/KEM/AEAD are ideal",
    "TLC 1.8 and the CommunityModules Json/IOUtils overrides are trusted",
    "the cfg-guarded verif_view projections faithfully report private fields (read-only, reviewed)",
    "SHA3 fingerprints (64 bits) of distinct secrets do not collide",
    "TLC results hold for the constants of the configuration only",
]


def chunks(n, size):
    return [(a, min(n, a + size)) for a in range(0, n, size)]


def gen_random(wd, prop, tier):
    jobs = []
    plan = PLAN[prop]
    for feat in plan["features"]:
        for (profile, q, t, steps) in plan["profiles"]:
            n = q if tier == "quick" else t
            if feat != "default":
                n = max(4, n // 4)
            for (a, b) in chunks(n, 8):
                out = os.path.join(wd, f"rand_{feat}_{profile}_{a}.ndjson")
                args = ["random", "--profile", profile, "--seed", str(seed()), "--from", str(a), "--to", str(b)]
                if steps:
                    args += ["--steps", str(steps)]
                jobs.append((args, feat, out))
    parallel(jobs, lambda j: run_harness(j[0], features=j[1], out=j[2]))
    return [j[2] for j in jobs]


def gen_replays(wd, files, tag):
    """Replays op files (regression histories, TLC behaviours) on the real library."""
    jobs = []
    for i, f in enumerate(files):
        out = os.path.join(wd, f"{tag}_{i}_{os.path.basename(f)}")
        jobs.append((["replay", "--ops", f], "default", out))
    parallel(jobs, lambda j: run_harness(j[0], features=j[1], out=j[2]))
    return [j[2] for j in jobs]


def parse_hist_stats(out):
    """Per-history stat deltas from the cumulative PTRACE-HIST lines."""
    rows = []
    for line in out.splitlines():
        if line.startswith('<<"PTRACE-HIST"'):
            body = line[line.index(",") + 1:line.rindex(">>")]
            h, js = body.split(",", 1)
            rows.append((int(h.strip()), json.loads(json.loads(js.strip()))))
    deltas, prev = {}, None
    for h, s in rows:
        if prev is not None and h != 0:
            deltas[h] = {k: s[k] - prev[k] for k in s}
        prev = s
    return deltas


def mtrace(t, wd):
    """Conformance of the implementation-shaped model on one observed trace (spec/MTrace.tla): every
    logged call is replayed through the model's action; results, decapsulation matrix, access structure,
    master / user / public key shapes and the identity of secrets are compared.  Never decides a
    property: differences are reported as MODEL-DRIFT."""
    from common import tlc
    r = tlc(os.path.join(SPEC, "MTrace.tla"), os.path.join(SPEC, "MTrace.cfg"), wd,
            env_extra={"TRACE": t}, workers=1, timeout=900, xmx="3g")
    out = r["out"]
    res = {"steps": 0, "matched": 0, "skipped": 0, "histories": 0, "drift": [], "states": r["distinct"]}
    for l in out.splitlines():
        if l.startswith('<<"MTRACE-DRIFT"'):
            d = json.loads(json.loads(l[l.index(",") + 1:l.rindex(">>")].strip()))
            d["trace"] = t
            res["drift"].append(d)
        elif l.startswith('<<"MTRACE-DONE"'):
            m = re.search(r'"(\{.*\})"', l)
            if m:
                res.update(json.loads(json.loads('"' + m.group(1) + '"')))
            res["done"] = True
    if not res.get("done"):
        res["error"] = "\n".join(x for x in out.splitlines() if "rror" in x or "line " in x)[-600:] or out[-600:]
    return res


def validate(traces, wd):
    from common import tlc
    results = []

    def one(t):
        r = tlc(os.path.join(SPEC, "PTrace.tla"), os.path.join(SPEC, "PTrace.cfg"), wd,
                env_extra={"TRACE": t}, workers=1, timeout=1500, xmx="3g")
        out = r["out"]
        if "PTRACE-GHOST-INCONSISTENT" in out:
            raise ToolError(f"the reference state became inconsistent (must not within may) while validating {t}")
        if '<<"PTRACE-DONE"' not in out:
            tail = "\n".join(out.splitlines()[-30:])
            raise ToolError(f"trace validation did not consume {t}:\n{tail}")
        viols = [json.loads(json.loads(l[l.index(",") + 1:l.rindex(">>")].strip()))
                 for l in out.splitlines() if l.startswith('<<"PTRACE-VIOL"')]
        for v in viols:
            v["trace"] = t
        stats = [json.loads(json.loads(l[l.index(",") + 1:l.rindex(">>")].strip()))
                 for l in out.splitlines() if l.startswith('<<"PTRACE-STATS"')]
        return dict(trace=t, viols=viols, stats=stats[0] if stats else {}, hist=parse_hist_stats(out),
                    states=r["distinct"], transitions=r["generated"],
                    # (the repository's own tests log calls, not the master key after each call: no model replay)
                    model={} if os.path.basename(t).startswith("repotests") else mtrace(t, wd))

    results = parallel(traces, one, workers=8)
    return results


def report(prop, tier, t0, results, mc_results, extra_cov=None, extra_viol=None):
    """Common tail of every lifecycle check: classification, output, evidence."""
    plan = PLAN[prop]
    viols = [v for r in results for v in r["viols"] if prop in v["p"]]
    viols += extra_viol or []
    drift = [v for r in results for v in r["viols"] if "DRIFT" in v["p"]]
    for v in drift[:5]:
        print(f"MODEL-DRIFT op={v['detail'][0]} step={v.get('line')} history={v.get('hist')} trace={os.path.basename(v.get('trace', ''))}: {v['what']}")
    mdrift = [d for r in results for d in r.get("model", {}).get("drift", [])]
    for d in mdrift[:5]:
        print(f"MODEL-DRIFT op={d['op']} line={d['line']} trace={os.path.basename(d['trace'])}: the model and the library differ on {'; '.join(d['what'])}")
    for r in results:
        if r.get("model", {}).get("error"):
            print(f"MODEL-DRIFT trace={os.path.basename(r['trace'])}: the model could not follow the trace: {r['model']['error'][:300]}")
    known, new = classify(prop, viols)
    # model-checking findings
    mc_known, mc_new = [], []
    for m in mc_results:
        for v in m.get("violations", []):
            (mc_known if v.get("known") else mc_new).append(v)
    total = {}
    nontrivial = 0
    nhist = 0
    for r in results:
        for k, v in r["stats"].items():
            total[k] = total.get(k, 0) + v
        for h, s in r["hist"].items():
            nhist += 1
            if plan["nontrivial"](s):
                nontrivial += 1
    samples = []
    for r in results[:3]:
        hs = sorted(r["hist"].keys())
        if hs:
            samples.append({"trace": os.path.basename(r["trace"]), "history": hs[0],
                            "ops": brief_ops(history_ops(r["trace"], hs[0]), 30)})
    seen = set()
    for v, f in known:
        key = (f["id"], v["what"])
        if key not in seen:
            seen.add(key)
            print(f"KNOWN-FINDING: property={prop} {f['what']} [{f['id']}: {v['what']}; cause={v['cause']}]")
    for v in mc_known:
        print(f"KNOWN-FINDING: property={prop} {v['what']}")
    rc = 0
    wd = os.path.join(VERIF, "work", prop)
    for i, (v, _) in enumerate(new[:5]):
        path = os.path.join(wd, f"violation_{i}.ndjson")
        ops = history_ops(v["trace"], v["hist"]) if "trace" in v and "hist" in v else []
        with open(path, "w") as f:
            for o in ops:
                f.write(json.dumps(o) + "\n")
        with open(path + ".why.json", "w") as f:
            json.dump(v, f, indent=1, default=str)
        print(f"VIOLATION property={prop} replay={path}")
        log(f"  {v['what']} at line {v.get('line')} of history {v.get('hist')}: {json.dumps(v.get('detail'))[:400]}")
        rc = 1
    for v in mc_new[:3]:
        print(f"VIOLATION property={prop} replay={v['replay']}")
        log(f"  model: {v['what']}")
        rc = 1
    states = sum(r["states"] for r in results) + sum(m.get("distinct", 0) for m in mc_results)
    trans = sum(r["transitions"] for r in results) + sum(m.get("generated", 0) for m in mc_results)
    cov = {
        "states": states, "transitions": trans,
        "traces_validated_against_impl": nhist,
        "samples": samples or [{"note": "no history"}],
        "evaluations": total.get("mustopen", 0) + total.get("mustnot", 0) + total.get("events", 0),
        "distinct_nontrivial": nontrivial,
        "rule": plan["rule"],
        "model_checking": [{k: m[k] for k in m if k != "out"} for m in mc_results],
        "trace_monitor_counters": total,
        "model_drift_steps": len(drift) + len(mdrift),
        "model_conformance": {
            "what": "every logged call replayed through the action of Covercrypt.tla (MTrace.tla); compared: result, "
                    "decapsulation matrix, access structure, master/user/public key rights, chain lengths, flags, identity of secrets",
            "steps_compared": sum(r.get("model", {}).get("steps", 0) for r in results),
            "steps_matched": sum(r.get("model", {}).get("matched", 0) for r in results),
            "steps_without_model_action": sum(r.get("model", {}).get("skipped", 0) for r in results),
            "traces_not_followed": sum(1 for r in results if r.get("model", {}).get("error")),
        },
        "known_finding_instances": len(known) + len(mc_known),
        "new_violation_instances": len(new) + len(mc_new),
        "exhaustive": False,
    }
    cov.update(extra_cov or {})
    write_evidence(prop, tier, "model_checking", cov, time.time() - t0, len(new) + len(mc_new), ASSUMPTIONS)
    log(f"[{prop}] {nhist} histories ({nontrivial} non-trivial), {states} TLC states, "
        f"{len(known)} known-finding instances, {len(new)} new violations, {time.time()-t0:.0f}s")
    if drift and os.environ.get("VERIF_STRICT_DRIFT"):
        return rc or 2
    return rc


def binding_selftest(wd, trace):
    """Demonstrates that the trace specification is bound to what was recorded: corrupt one recorded
    field / remove one event of an accepted trace and require PTrace to object."""
    with open(trace) as f:
        lines = [json.loads(l) for l in f]
    out = {}
    base_desync = validate([trace], wd)[0]["stats"].get("desync", 0)

    def run(name, mutate):
        ls = [dict(x) for x in lines]
        if not mutate(ls):
            out[name] = "not applicable to this trace"
            return
        path = os.path.join(wd, f"selftest_{name}.ndjson")
        with open(path, "w") as f:
            for x in ls:
                f.write(json.dumps(x) + "\n")
        try:
            r = validate([path], wd)[0]
            # (an event that refers to an object the shortened history no longer produces makes the
            #  history unexplainable: PTrace stops following it and counts it in `desync`)
            unexplainable = r["stats"].get("desync", 0) > base_desync
            out[name] = "rejected" if r["viols"] else ("rejected (history no longer explainable)" if unexplainable
                                                        else "ACCEPTED (binding broken)")
        except ToolError:
            out[name] = "rejected (trace not consumable)"

    def flip_row(ls):
        for x in ls:
            for row in x.get("opens", []):
                if row["r"] == "same":
                    row["r"] = "none"
                    return True
        return False

    def flip_result(ls):
        for x in ls:
            if x.get("op") in ("rekey", "keygen") and x.get("res") == "ok":
                x["res"] = "err"
                x["unchanged"] = True
                return True
        return False

    def drop_update(ls):
        idx = [i for i, x in enumerate(ls) if x.get("op") == "update" and x.get("res") == "ok"]
        if not idx:
            return False
        del ls[idx[0]]
        return True

    # the same for the model replay (MTrace.tla): each corrupted field must be reported as drift
    def mrun(name, mutate):
        import copy
        ls = copy.deepcopy(lines)
        if not mutate(ls):
            out["model_" + name] = "not applicable to this trace"
            return
        path = os.path.join(wd, f"selftest_model_{name}.ndjson")
        with open(path, "w") as f:
            for x in ls:
                f.write(json.dumps(x) + "\n")
        m = mtrace(path, wd)
        out["model_" + name] = "rejected" if (m["drift"] or m.get("error")) else "ACCEPTED (binding broken)"

    def first(ls, pred):
        for x in ls:
            if x.get("k") == "op" and x.get("res") == "ok" and pred(x):
                return x
        return None

    def m_flag(ls):
        x = first(ls, lambda e: e.get("op") == "update" and e.get("msk", {}).get("rights"))
        if x:
            x["msk"]["rights"][-1]["ch"][0]["a"] = not x["msk"]["rights"][-1]["ch"][0]["a"]
        return bool(x)

    def m_attr_id(ls):
        x = first(ls, lambda e: e.get("op") == "add_attr" and e.get("msk", {}).get("st"))
        if x:
            for d in x["msk"]["st"]:
                if d["attrs"]:
                    d["attrs"][0]["id"] += 7
                    return True
        return False

    def m_chain(ls):
        x = first(ls, lambda e: e.get("op") == "rekey" and any(len(r["ch"]) > 1 for r in e.get("msk", {}).get("rights", [])))
        if x:
            for r in x["msk"]["rights"]:
                if len(r["ch"]) > 1:
                    r["ch"].pop()
                    return True
        return False

    def m_secret(ls):
        # the user key is said to hold another right's secret
        x = first(ls, lambda e: e.get("op") == "keygen" and len(e.get("uskv", {}).get("ch", [])) > 1)
        if x:
            a, b = x["uskv"]["ch"][0]["c"][0], x["uskv"]["ch"][1]["c"][0]
            a["s"], b["s"] = b["s"], a["s"]
        return bool(x)

    def m_mpk(ls):
        x = first(ls, lambda e: e.get("op") in ("update", "rekey") and len(e.get("mpkv", {}).get("keys", [])) > 1)
        if x:
            x["mpkv"]["keys"].pop()
        return bool(x)

    def m_open(ls):
        for x in ls:
            for row in x.get("opens", []):
                if row["r"] == "none":
                    row["r"] = "same"
                    return True
        return False

    mrun("activation_flag_flipped", m_flag)
    mrun("attribute_identifier_changed", m_attr_id)
    mrun("chain_shortened", m_chain)
    mrun("user_secrets_swapped", m_secret)
    mrun("published_right_removed", m_mpk)
    mrun("decapsulation_verdict_flipped", m_open)
    mrun("call_result_flipped", flip_result)
    run("decapsulation_verdict_flipped", flip_row)
    run("call_result_flipped", flip_result)
    run("update_event_removed", drop_update)
    if any(v.startswith("ACCEPTED") for v in out.values()):
        raise ToolError(f"binding self-test failed: {out}")
    return out


def regress_files(prop):
    return sorted(glob.glob(os.path.join(SPEC, "regress", "*.ndjson")))


def check(prop, tier):
    t0 = time.time()
    wd = workdir(prop)
    for feat in PLAN[prop]["features"]:
        build_harness(feat)
    mc_results = mc.run_for(prop, tier, wd)
    traces = gen_random(wd, prop, tier)
    traces += gen_replays(wd, regress_files(prop), "regress")
    beh = [m["behaviours"] for m in mc_results if m.get("behaviours")]
    traces += gen_replays(wd, beh, "beh")
    # the repository's own tests, run with the event log on (B2c)
    import repotests
    rt_path, rt_cov = repotests.trace(wd)
    traces.append(rt_path)
    results = validate(traces, wd)
    extra_cov, extra_viol = {}, []
    extra_cov.update(rt_cov)
    if tier == "thorough":
        extra_cov["binding_selftest"] = binding_selftest(wd, traces[0])
    if prop == "C13":
        import golden
        c, extra_viol = golden.run(wd)
        extra_cov.update(c)
    if prop in ("C10", "C17"):
        # a REJECTED refresh of a forged key must leave both keys (and the registered identifiers) untouched
        import satellites
        extra_viol, c = satellites.c08_viols(tier, wd, prop, only={"modified-on-reject", "issued-refused"})
        extra_cov.update(c)
    if prop == "C11":
        # "carries ML-KEM ciphertexts bound into the tag": tampering with the ciphertexts must be detected
        import satellites
        extra_viol, c = satellites.c07_viols(tier, wd, prop)
        extra_cov.update(c)
    if prop == "C09":
        # "a forged user key" is one of the documented error causes: the tamper kinds of UskMac.tla
        import satellites
        extra_viol, c = satellites.c08_viols(tier, wd, "C09")
        extra_cov.update(c)
    if prop == "C16":
        import satellites
        extra_viol, c = satellites.c16_fresh(tier, wd)
        extra_cov.update(c)
    return report(prop, tier, t0, results, mc_results, extra_cov, extra_viol)


def replay(prop, path):
    """Re-runs one recorded history (op file) and validates it."""
    wd = workdir(prop + "_replay")
    build_harness("default")
    out = os.path.join(wd, "replay.ndjson")
    run_harness(["replay", "--ops", path], out=out)
    res = validate([out], wd)
    viols = [v for r in res for v in r["viols"] if prop in v["p"]]
    known, new = classify(prop, viols)
    for v, f in known:
        print(f"KNOWN-FINDING: property={prop} {f['what']}")
    for v, _ in new:
        print(f"VIOLATION property={prop} replay={path}")
        log("  " + json.dumps(v, default=str)[:600])
    return 1 if new else 0
