"""Minimal parser of TLA+ values as TLC prints them (records, tuples, sets,
strings, booleans, integers, explicit functions a :> b @@ c :> d)."""


class P:
    def __init__(self, s):
        self.s, self.i = s, 0

    def ws(self):
        while self.i < len(self.s) and self.s[self.i] in " \t\r\n":
            self.i += 1

    def eat(self, t):
        self.ws()
        if self.s.startswith(t, self.i):
            self.i += len(t)
            return True
        return False

    def expect(self, t):
        if not self.eat(t):
            raise ValueError(f"expected {t!r} at {self.i}: {self.s[self.i:self.i+40]!r}")

    def value(self):
        self.ws()
        c = self.s[self.i]
        if self.s.startswith("<<", self.i):
            self.i += 2
            xs = self.seq(">>")
            return xs
        if c == "[":
            self.i += 1
            rec = {}
            if self.eat("]"):
                return rec
            while True:
                self.ws()
                j = self.i
                while self.s[self.i].isalnum() or self.s[self.i] == "_":
                    self.i += 1
                k = self.s[j:self.i]
                self.expect("|->")
                rec[k] = self.value()
                if self.eat("]"):
                    return rec
                self.expect(",")
        if c == "{":
            self.i += 1
            return {"$set": self.seq("}")}
        if c == "(":
            self.i += 1
            f = []
            while True:
                k = self.value()
                self.expect(":>")
                v = self.value()
                f.append([k, v])
                if self.eat(")"):
                    return {"$fn": f}
                self.expect("@@")
        if c == '"':
            j = self.i + 1
            k = self.s.index('"', j)
            self.i = k + 1
            return self.s[j:k]
        if self.s.startswith("TRUE", self.i):
            self.i += 4
            return True
        if self.s.startswith("FALSE", self.i):
            self.i += 5
            return False
        j = self.i
        if self.s[self.i] == "-":
            self.i += 1
        while self.i < len(self.s) and self.s[self.i].isdigit():
            self.i += 1
        if j == self.i:
            raise ValueError(f"cannot parse at {self.i}: {self.s[self.i:self.i+40]!r}")
        return int(self.s[j:self.i])

    def seq(self, close):
        xs = []
        if self.eat(close):
            return xs
        while True:
            xs.append(self.value())
            if self.eat(close):
                return xs
            self.expect(",")


def parse(s):
    return P(s).value()


def state_vars(text):
    """Splits a TLC state dump `/\\ v = value` into {v: parsed value}."""
    out = {}
    parts = text.split("\n/\\ ")
    for part in parts:
        part = part.strip()
        if part.startswith("/\\ "):
            part = part[3:]
        if " = " not in part:
            continue
        k, v = part.split(" = ", 1)
        k = k.strip()
        if k.isidentifier():
            try:
                out[k] = parse(v)
            except (ValueError, IndexError):
                pass
    return out
