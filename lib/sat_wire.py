"""placeholder, filled in by the wire satellite"""
from common import ToolError


def check(tier):
    raise ToolError("wire satellite not built yet")
