"""C14: deserializing or using untrusted bytes never crashes, hangs or over-allocates.

spec/Wire.tla holds the wire grammar of the six serialized types as field trees,
a reader machine whose allocation bound K*len + C TLC checks (and refutes for
the uncapped defect variant), the enumeration of the abstract cases (every
count/length field of the grammar x boundary values, truncations, flips, random
strings) and the judge of the observed records. harness/src/sat/wire.rs cuts
valid objects into fields by interpreting that grammar, expands the cases into
concrete mutants and executes them in isolated, memory-limited, watched worker
processes, using every parsed mutant."""
import json
import os
import time

from common import NCPU, ToolError, build_harness, log, run_harness, seed, workdir
from satellites import finish, run_module, tagged, write_cfg

# wire sizes of the default feature set (curve25519, ML-KEM-512)
SIZES = {"SCALAR": 32, "POINT": 32, "EK": 800, "DK": 1632, "CT": 768}

CAUSE = {"panic": "panic", "use-panic": "panic", "abort": "abort", "use-abort": "abort",
         "hang": "hang", "use-hang": "hang", "overalloc": "overalloc", "slow": "slow"}
NOUN = {"xenc": "encapsulation", "header": "encrypted header", "usk": "user key", "mpk": "public key",
        "msk": "master key", "structure": "access structure"}
USE = {"xenc": "decapsulation / tracing_level() / count() of", "header": "header decryption of",
       "usk": "decapsulation with / tracing_level() of", "mpk": "encapsulation with / tracing_level() of",
       "msk": "mpk() of", "structure": "use of"}


def _what(rec):
    cls, t = rec["class"], rec["type"]
    phase = (USE[t] if cls.startswith("use-") else "deserialization of")
    verb = {"panic": "panics", "abort": "aborts the process", "hang": "does not return",
            "overalloc": "allocates more than K*len+C", "slow": "exceeds the time bound"}[CAUSE[cls]]
    return f"{phase} a malformed {NOUN[t]} {verb}"


def check(tier):
    t0 = time.time()
    prop = "C14"
    wd = workdir(prop)
    build_harness("default")
    cfg = os.path.join(wd, "Wire.cfg")
    consts = dict(SIZES, Capped="TRUE", Lens="{0, 1, 16, 50, 120}" if tier == "quick" else "{0, 1, 16, 50, 120, 200}",
                  BigLens="{1700}")
    write_cfg(cfg, consts, "INVARIANT TypeOK AllocOK\n")
    g = run_module("Wire.tla", cfg, wd, "gen")
    if g["violated"] or "GEN-DONE" not in g["out"]:
        raise ToolError("Wire.tla: the reader machine violates its own allocation bound (or gen did not finish):\n"
                        + "\n".join(g["out"].splitlines()[-30:]))
    # the defect variant of the reader (capacities and lengths trusted) must break the bound,
    # otherwise the bound is vacuous
    cfg_bad = os.path.join(wd, "Wire_uncapped.cfg")
    write_cfg(cfg_bad, dict(consts, Capped="FALSE", Lens="{50}"), "INVARIANT AllocOK\n")
    bad = run_module("Wire.tla", cfg_bad, wd, "gen")
    if not bad["violated"]:
        raise ToolError("Wire.tla: the uncapped reader satisfies the allocation bound; the bound does not discriminate")
    cases = tagged(g["out"], "CASE")
    grammars = tagged(g["out"], "GRAMMAR")
    if len(grammars) != 6 or not cases:
        raise ToolError("Wire.tla gen printed no grammar / cases")
    cases_path = os.path.join(wd, "cases.ndjson")
    with open(cases_path, "w") as f:
        for gr in grammars:
            f.write(json.dumps({"grammar": gr}) + "\n")
        for c in cases:
            f.write(json.dumps(c) + "\n")
    obs = os.path.join(wd, "observed.ndjson")
    args = ["wire", "--cases", cases_path, "--out", obs, "--seed", str(seed()),
            "--workers", str(max(2, min(12, NCPU)))]
    if tier != "quick":
        args.append("--thorough")
    h = run_harness(args, timeout=7000)
    for line in h.stderr.splitlines():
        if line.startswith("[wire]"):
            log(line)
    cfg_chk = os.path.join(wd, "Wire_check.cfg")
    write_cfg(cfg_chk, consts)
    c = run_module("Wire.tla", cfg_chk, wd, "check", trace=obs, timeout=3000)
    if "CHECK-DONE" not in c["out"]:
        raise ToolError("Wire check did not finish:\n" + c["out"][-3000:])

    viols, skipped = [], 0
    for line in c["out"].splitlines():
        if not line.startswith('<<"VIOL"'):
            continue
        body = line[line.index(",") + 1:line.rindex(">>")].strip()
        _, js = body.split(",", 1)
        v = json.loads(json.loads(js.strip()))
        why, rec = v["why"], v["rec"]
        if why in ("layout", "field-path", "domain"):
            raise ToolError(f"Wire check: harness and grammar disagree ({why}): {json.dumps(rec)[:600]}")
        if why == "skipped":
            skipped += rec["n"]
            continue
        rec = dict(rec, **{"class": why}) if rec["class"] in ("value", "error") else rec
        ex = (rec.get("examples") or [{}])[0]
        detail = {"type": rec["type"], "object": rec["object"], "mutation": rec["mutation"],
                  "field": rec.get("field"), "value": rec.get("value"), "class": rec["class"],
                  "mutants_in_class": rec["n"], "note": rec.get("note"),
                  "offset": ex.get("off"), "concrete": ex.get("val"), "len": ex.get("len"),
                  "hex_around": ex.get("hex"), "bytes": ex.get("bytes"),
                  "worst_peak": rec.get("worst_peak"), "worst_len": rec.get("worst_len"), "max_ms": rec.get("max_ms"),
                  "objects": obs + ".ctx.json", "examples": [{k: e.get(k) for k in ("j", "off", "val", "len", "hex")}
                                                             for e in rec.get("examples", [])]}
        viols.append({"what": _what(rec), "cause": CAUSE[rec["class"]], "detail": detail})
    if skipped and not any(v["cause"] == "hang" for v in viols):
        raise ToolError("mutants were skipped without any reported hang")

    with open(obs) as f:
        recs = [json.loads(l) for l in f]
    layouts = [r for r in recs if r["kind"] == "layout"]
    rs = [r for r in recs if r["kind"] == "case"]
    grammar_fields = {(c["type"], c["field"]) for c in cases if "field" in c}
    seen_fields = {(l["type"], p) for l in layouts for p in l["fields"]}
    if grammar_fields - seen_fields:
        raise ToolError(f"count/length fields of the grammar without an instance in any valid object: "
                        f"{sorted(grammar_fields - seen_fields)}")
    classes = {}
    for r in rs:
        classes[r["class"]] = classes.get(r["class"], 0) + r["n"]
    executed = sum(n for k, n in classes.items() if k != "skipped")
    field_cases = {(r["type"], r["mutation"], r["field"], r["value"]) for r in rs
                   if r["mutation"] in ("count", "resize") and r["n_changed"] > 0}
    trunc_err = sum(r["n"] for r in rs if r["mutation"] == "truncate" and r["class"] == "error")
    used = {}
    for r in rs:
        for k, n in r.get("used", {}).items():
            used[k] = used.get(k, 0) + n
    kc = {gr["type"]: (gr["K"], gr["C"]) for gr in grammars}
    ratio = {}
    for r in rs:
        if r["class"] in ("value", "error", "overalloc") and r["n"]:
            k, cc = kc[r["type"]]
            ratio[r["type"]] = max(ratio.get(r["type"], 0.0), round(r["worst_peak"] / (k * r["worst_len"] + cc), 3))
    flips = "255 masks" if tier != "quick" else "masks 0x01, 0x80, 0xff"
    cov = {
        "evaluations": executed,
        "distinct_nontrivial": len(field_cases) + trunc_err,
        "rule": "six types x {small, large} valid objects; every truncation length; every byte position x " + flips +
                "; every occurrence of every count/length field enumerated by TLC from the grammar of Wire.tla x "
                "{0,1,n-1,n+1,2^32,2^63,2^64-1} raw and x {0,1,n-1,n+1} with the elements resized consistently; seeded "
                "random strings (uniform, overwrite, delete, insert). Every mutant runs in a worker process with a 1 GiB "
                "address-space limit, catch_unwind and a 5 s progress watchdog; every parsed mutant is used (decaps, header "
                "decryption, encaps, mpk(), tracing_level(), count()). non-trivial = distinct (type, mutation, field, value) "
                "cases that changed the bytes + truncation lengths that were rejected. Judge (TLC): class in {value, error}, "
                "peak allocation <= K*len+C with K, C recomputed from the grammar, time <= 1500 + len/8 ms.",
        "samples": [{k: r.get(k) for k in ("type", "object", "mutation", "field", "value", "class", "n", "worst_peak",
                                            "worst_len", "max_ms")} for r in rs[40:43]],
        "abstract_cases": len(cases), "count_length_fields": len(grammar_fields),
        "field_value_cases": len(field_cases), "truncations_rejected": trunc_err,
        "per_class": classes, "parsed_mutants_used": sum(used.values()), "use_results": used,
        "mutants_skipped_after_hangs": skipped,
        "max_ms_one_mutant": max((r["max_ms"] for r in rs), default=0),
        "max_peak_allocation_during_use": max((r["max_use_peak"] for r in rs), default=0),
        "bound": {t: {"K": k, "C": cc, "worst_observed_fraction_of_bound": ratio.get(t)} for t, (k, cc) in kc.items()},
        "objects": {f"{l['type']}/{l['object']}": {"bytes": l["len"], "fields": l["nfields"]} for l in layouts},
        "reader_machine": {"states": g["distinct"], "transitions": g["generated"],
                           "uncapped_variant_refuted": bool(bad["violated"])},
        "exhaustive": False,
        "states": max(1, c["distinct"]), "transitions": max(1, c["generated"]),
    }
    return finish(prop, tier, t0, viols, cov)
