#!/usr/bin/env python3
"""seed_eval.py <seed-id> <worktree> <check-id> [more check ids]: confirms a seeded change
(tests pass with it, demo fails with it and passes without) and runs the named checks on /repo
with the change applied; stores everything under /verif/seeded/<seed-id>/."""
import json
import os
import shutil
import subprocess
import sys
import time

sid, wt = sys.argv[1], sys.argv[2]
checks = sys.argv[3:]
out = f"/verif/seeded/{sid}"
os.makedirs(out, exist_ok=True)
patch = os.path.join(wt, "OUT", "patch.diff")


def sh(cmd, cwd=None, timeout=3000):
    p = subprocess.run(cmd, shell=True, cwd=cwd, capture_output=True, text=True, timeout=timeout)
    return p.returncode, (p.stdout + p.stderr)


meta = {"id": sid, "ran": []}
demo_cmd = "cargo test --offline --test demo"
notes = open(os.path.join(wt, "OUT", "NOTES.md")).read() if os.path.exists(os.path.join(wt, "OUT", "NOTES.md")) else ""
if "--lib" in notes and "demo" in notes and not os.path.exists(os.path.join(wt, "tests", "demo.rs")):
    demo_cmd = None
# 1. state of the worktree: change applied?
rc, _ = sh(f"git apply --check -R {patch}", cwd=wt)
if rc != 0:
    sh(f"git apply {patch}", cwd=wt)
rc, o = sh("cargo test --offline --lib 2>&1 | grep -E '^test result' | head -1", cwd=wt)
meta["tests_with_change"] = o.strip()
if demo_cmd:
    rc1, o1 = sh(demo_cmd + " 2>&1 | grep -E '^test result|panicked' | head -5", cwd=wt)
    meta["demo_with_change"] = o1.strip()
    sh(f"git apply -R {patch}", cwd=wt)
    rc2, o2 = sh(demo_cmd + " 2>&1 | grep -E '^test result' | head -3", cwd=wt)
    meta["demo_without_change"] = o2.strip()
    sh(f"git apply {patch}", cwd=wt)
# 2. run the checks on /repo with the change
rc, o = sh(f"git -C /repo apply --check {patch}")
if rc != 0:
    print("patch does not apply to /repo:", o)
    sys.exit(2)
sh(f"git -C /repo apply {patch}")
try:
    for c in checks:
        t = time.time()
        rc, o = sh(f"./check {c}", cwd="/verif", timeout=3000)
        lines = [l for l in o.splitlines() if l.startswith("VIOLATION") or l.startswith("KNOWN-FINDING") or l.startswith("[C") or l.startswith("  ")]
        meta["ran"].append({"check": c, "rc": rc, "seconds": round(time.time() - t), "output": lines[:12]})
        print(c, "rc=", rc, round(time.time() - t), "s")
        for l in lines[:6]:
            print("   ", l[:220])
finally:
    sh("git -C /repo checkout -- .")
    # rebuild the harness on the restored tree (a stale binary would carry the seeded change into later manual runs)
    sh("cargo build --release --offline", cwd="/verif/harness")
    rc, o = sh("git -C /repo status --short")
    if o.strip():
        print("WARNING /repo not clean:", o)
shutil.copy(patch, os.path.join(out, "patch.diff"))
for f in os.listdir(os.path.join(wt, "OUT")):
    if f not in ("patch.diff",) and not f.startswith("."):
        shutil.copy(os.path.join(wt, "OUT", f), os.path.join(out, f))
meta_path = os.path.join(out, "meta.json")
old = json.load(open(meta_path)) if os.path.exists(meta_path) else {}
old.update(meta)
json.dump(old, open(meta_path, "w"), indent=1)
