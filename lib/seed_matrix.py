#!/usr/bin/env python3
"""Re-runs every seeded change of /verif/seeded against the quick check of the property it was written
against (on /repo with the patch applied, restored afterwards) and writes seeded/MATRIX.json."""
import glob
import json
import os
import subprocess
import sys
import time


def sh(c, cwd=None, timeout=3000):
    p = subprocess.run(c, shell=True, cwd=cwd, capture_output=True, text=True, timeout=timeout)
    return p.returncode, p.stdout + p.stderr


only = set(sys.argv[1:])
rows = []
rc, o = sh("git -C /repo status --short")
assert not o.strip(), "/repo not clean: " + o
for d in sorted(glob.glob("/verif/seeded/*/")):
    sid = os.path.basename(d.rstrip("/"))
    if only and sid not in only:
        continue
    meta = json.load(open(d + "meta.json"))
    prop = meta["property"]
    patch = d + "patch.diff"
    rc, o = sh(f"git -C /repo apply --check {patch}")
    if rc != 0:
        rows.append({"seed": sid, "property": prop, "rc": None, "note": "patch does not apply"})
        continue
    sh(f"git -C /repo apply {patch}")
    try:
        t = time.time()
        rc, o = sh(f"./check {prop}", cwd="/verif")
        viol = [l for l in o.splitlines() if l.startswith("VIOLATION")]
        rows.append({"seed": sid, "property": prop, "rc": rc, "violation_lines": len(viol), "seconds": round(time.time() - t)})
        print(sid, prop, "rc=", rc, round(time.time() - t), "s", flush=True)
    finally:
        sh("git -C /repo checkout -- .")
sh("cargo build --release --offline", cwd="/verif/harness")
out = {"at": time.strftime("%F %T"), "verif_commit": sh("git -C /verif rev-parse --short HEAD")[1].strip(),
       "rows": rows, "caught": sum(1 for r in rows if r["rc"] == 1), "total": len(rows)}
if not only:
    json.dump(out, open("/verif/seeded/MATRIX.json", "w"), indent=1)
print(out["caught"], "/", out["total"])
