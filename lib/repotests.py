"""B2c: the repository's own tests, run with the cfg-guarded event log on, validated by PTrace.tla.

The raw log (one JSON line per public API call, written by src/verif_emit.rs) is cut into one history
per `setup` per test thread and translated into the event format of the harness traces. Anything the
translation cannot place with certainty (a user key in a state no issued handle is in, a public key
the history did not produce, a structure edit that does not belong to the master key's structure) is
DROPPED, never guessed: dropped events are counted in the evidence."""
import hashlib
import json
import os
import subprocess

from common import REPO, WORK, ToolError, log

DIR = os.path.join(WORK, "repotests")


def run_tests():
    os.makedirs(DIR, exist_ok=True)
    raw = os.path.join(DIR, "raw.ndjson")
    if os.path.exists(raw):
        os.remove(raw)
    env = dict(os.environ, RUSTFLAGS="--cfg cosmian_cover_crypt_verif", CC_VERIF_TRACE=raw, CARGO_NET_OFFLINE="true")
    p = subprocess.run(["cargo", "test", "--offline", "--lib", "--target-dir", os.path.join(DIR, "target")],
                       cwd=REPO, env=env, capture_output=True, text=True, timeout=1800)
    out = p.stdout + p.stderr
    if "test result:" not in out:
        raise ToolError("the repository's tests did not build/run with the hooks on:\n" + out[-3000:])
    passed = "test result: ok" in out
    return raw, passed, out


def h(v):
    return hashlib.md5(json.dumps(v, sort_keys=True).encode()).hexdigest()[:12]


def convert(raw, out_path):
    """Returns stats; writes the PTrace-format trace."""
    by_thread = {}
    with open(raw) as f:
        for line in f:
            e = json.loads(line)
            by_thread.setdefault(e["thread"], []).append(e)
    stats = dict(raw_events=0, histories=0, emitted=0, dropped=0, dropped_histories=0)
    nh = 0
    with open(out_path, "w") as w:
        for th, evs in by_thread.items():
            evs.sort(key=lambda e: e["seq"])
            active = False
            for e in evs:
                stats["raw_events"] += 1
                op = e["op"]
                if op == "setup":
                    nh += 1
                    stats["histories"] += 1
                    active = True
                    mpks = [h(e["mpkv"])]
                    usk = {}      # state hash -> handle
                    enc = {}      # tag -> (handle, secret)
                    st = e["msk"]["st"]
                    nu = ne = 0
                    w.write(json.dumps({"k": "reset", "mpk": 1, "msk": e["msk"], "mpkv": e["mpkv"], "hist": nh,
                                        "source": "repository test, " + th}) + "\n")
                    continue
                if not active:
                    stats["dropped"] += 1
                    continue

                def emit(ev):
                    ev["k"] = "op"
                    w.write(json.dumps(ev) + "\n")
                    stats["emitted"] += 1

                if op in ("add_dim", "del_dim", "add_attr", "del_attr", "rename", "disable"):
                    # the edit belongs to this master key's structure only if it continues its last known state
                    ev = {k: e[k] for k in e if k in ("op", "d", "kind", "n", "hint", "after", "to", "res")}
                    st_before = st
                    st = e["st"]
                    ev["_st_before"] = h(st_before)
                    emit(ev)
                elif op in ("update", "rekey", "prune", "mpk"):
                    if e["msk"]["st"] != st:
                        # the structure edits seen on this thread were not (all) made on this master key
                        active = False
                        stats["dropped_histories"] += 1
                        w.write(json.dumps({"k": "reset", "mpk": 1, "msk": e["msk"], "hist": nh * 1000, "dropped": True}) + "\n")
                        continue
                    ev = {k: e[k] for k in e if k in ("op", "pol", "res", "msk", "mpkv")}
                    if e["res"] == "ok":
                        mpks.append(h(e["mpkv"]))
                        ev["mpk"] = len(mpks)
                    emit(ev)
                elif op == "keygen":
                    nu += 1
                    ev = {k: e[k] for k in e if k in ("op", "pol", "res", "msk", "uskv", "chk")}
                    ev["u"] = f"t{nu}"
                    if e["res"] == "ok":
                        usk[h(e["uskv"])] = ev["u"]
                    emit(ev)
                elif op == "refresh":
                    hb = h(e["before"])
                    if hb not in usk:
                        stats["dropped"] += 1
                        continue
                    u = usk.pop(hb)
                    ev = {k: e[k] for k in e if k in ("op", "keep", "res", "msk", "uskv", "chk")}
                    ev["u"] = u
                    usk[h(e["uskv"])] = u
                    emit(ev)
                elif op in ("encaps", "recaps"):
                    hm = h(e["mpkv"])
                    if hm not in mpks:
                        stats["dropped"] += 1
                        continue
                    ev = {k: e[k] for k in e if k in ("op", "pol", "res", "encv")}
                    ev["mpk"] = mpks.index(hm) + 1
                    if op == "recaps":
                        src = enc.get(e["from"]["tag"])
                        if not src:
                            stats["dropped"] += 1
                            continue
                        ev["from"] = src[0]
                        ev["same_secret"] = e.get("secret") == src[1]
                    ne += 1
                    ev["e"] = f"x{ne}"
                    if e["res"] == "ok":
                        enc[e["encv"]["tag"]] = (ev["e"], e["secret"])
                    emit(ev)
                elif op == "decaps":
                    u = usk.get(h(e["uskv"]))
                    x = enc.get(e["encv"]["tag"])
                    if not u or not x:
                        stats["dropped"] += 1
                        continue
                    out = e["out"]
                    r = "none" if out == "none" else "err" if out == "err" else "same" if out == x[1] else "diff"
                    emit({"op": "observe", "res": "ok", "opens": [{"u": u, "e": x[0], "r": r, "p": False}]})
                else:
                    stats["dropped"] += 1
    return stats


def trace(wd):
    """Runs the tests with hooks, converts, returns (trace path, coverage dict)."""
    raw, passed, out = run_tests()
    path = os.path.join(wd, "repotests.ndjson")
    stats = convert(raw, path)
    stats["tests_passed_with_hooks"] = passed
    log(f"[repotests] {stats}")
    return path, {"repository_tests_trace": stats}
