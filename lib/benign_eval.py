#!/usr/bin/env python3
"""benign_eval.py <id> <worktree> <check-id> [more]: a behaviour-preserving change (written by a fresh sub-agent
that knows only the property text) is applied to /repo, the named checks are run, /repo is restored. Any
VIOLATION / non-zero exit is a false alarm to be explained. Stores patch, notes and results under benign/<id>/."""
import json, os, shutil, subprocess, sys, time
sid, wt = sys.argv[1], sys.argv[2]
checks = sys.argv[3:]
out = f"/verif/benign/{sid}"
os.makedirs(out, exist_ok=True)
patch = os.path.join(wt, "OUT", "patch.diff")
def sh(cmd, cwd=None, timeout=3000):
    p = subprocess.run(cmd, shell=True, cwd=cwd, capture_output=True, text=True, timeout=timeout)
    return p.returncode, (p.stdout + p.stderr)
meta = {"id": sid, "ran": []}
rc, _ = sh(f"git apply --check -R {patch}", cwd=wt)
if rc != 0:
    sh(f"git apply {patch}", cwd=wt)
rc, o = sh("cargo test --offline --lib 2>&1 | grep -E '^test result' | head -1", cwd=wt)
meta["tests_with_change"] = o.strip()
if os.path.exists(os.path.join(wt, "tests", "same.rs")):
    rc, o = sh("cargo test --offline --test same 2>&1 | grep -E '^test result' | head -2", cwd=wt)
    meta["same_with_change"] = o.strip()
rc, o = sh(f"git -C /repo apply --check {patch}")
if rc != 0:
    print("patch does not apply to /repo:", o); sys.exit(2)
sh(f"git -C /repo apply {patch}")
try:
    for c in checks:
        t = time.time()
        rc, o = sh(f"./check {c}", cwd="/verif")
        lines = [l for l in o.splitlines() if l.startswith(("VIOLATION", "MODEL-DRIFT", "TOOL-ERROR", "[C", "  "))]
        meta["ran"].append({"check": c, "rc": rc, "seconds": round(time.time() - t), "output": lines[:12]})
        print(sid, c, "rc=", rc, round(time.time() - t), "s", flush=True)
        for l in lines[:6]:
            if not l.startswith("[C"): print("    ", l[:240])
finally:
    sh("git -C /repo checkout -- .")
    sh("cargo build --release --offline", cwd="/verif/harness")
    rc, o = sh("git -C /repo status --short")
    if o.strip(): print("WARNING /repo not clean:", o)
shutil.copy(patch, os.path.join(out, "patch.diff"))
for f in ("NOTES.md", "same.rs"):
    if os.path.exists(os.path.join(wt, "OUT", f)): shutil.copy(os.path.join(wt, "OUT", f), os.path.join(out, f))
mp = os.path.join(out, "meta.json")
old = json.load(open(mp)) if os.path.exists(mp) else {}
old.setdefault("runs", []).append({"at": time.strftime("%F %T"), **meta})
json.dump(old, open(mp, "w"), indent=1)
