"""placeholder, filled in by the pke satellite"""
from common import ToolError


def check(tier):
    raise ToolError("pke satellite not built yet")
