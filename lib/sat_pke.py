"""C12: PKE and encrypted-header layers round-trip and authenticate.

spec/Pke.tla is a symbolic model of the KEM-DEM composition (ideal KDF, AEAD and
KEM) and of the contract of the statement. TLC enumerates the abstract cases
with their expected verdicts (mode gen) and names the cases where the design
itself cannot meet the contract; the harness (cc-harness pke) concretises every
case on the real library (real keys, real bytes, every truncation length,
flipped bits); TLC judges every observed execution against the verdict it
recomputes from the case description (mode check)."""
import json
import os
import time

from common import ToolError, build_harness, log, run_harness, seed
from common import workdir
from satellites import finish, run_module, tagged, write_cfg

QUICK_LENS = [0, 1, 11, 12, 13, 15, 16, 17, 31, 32, 33, 47, 48, 64, 80]
CASE_KEYS = ("layer", "len", "md", "aadg", "aadd", "key", "tamper", "region")

WHAT = {
    "metadata-stripped": "a header whose encrypted metadata was dropped decrypts successfully: same secret, metadata None, "
                         "authentication data ignored",
    "aad-unbound-without-metadata": "a header generated without metadata decrypts successfully under authentication data of "
                                    "different content (nothing binds the authentication data when there is no metadata)",
    "panic": "decryption panicked",
    "ok-wrong": "decryption succeeded with data or a secret that are not the generated ones",
    "ok-exact": "decryption succeeded although the ciphertext, the authentication data or the opening key is not the "
                "one of generation",
    "none": "'not authorized' (Ok(None)) where the contract demands another outcome",
    "err": "an error where the contract demands another outcome",
}


def case_key(r):
    return tuple(r.get(k) for k in CASE_KEYS)


def spread(viols):
    """Orders violation instances so that every distinct (cause, tamper, layer) is represented first."""
    groups = {}
    for v in viols:
        c = v["detail"]["case"]
        groups.setdefault((v["cause"], c.get("tamper"), c.get("layer")), []).append(v)
    out, rest = [], []
    for g in groups.values():
        out.append(g[0])
        rest.extend(g[1:])
    return out + rest


def check(tier):
    t0 = time.time()
    prop = "C12"
    wd = workdir(prop)
    build_harness("default")
    thorough = tier != "quick"
    cfg = os.path.join(wd, "Pke.cfg")
    lens = "{" + ", ".join(map(str, range(81) if thorough else QUICK_LENS)) + "}"
    write_cfg(cfg, {"Lens": lens, "Full": "TRUE" if thorough else "FALSE"})

    # 1. TLC enumerates the abstract cases with their expected verdicts
    g = run_module("Pke.tla", cfg, wd, "gen", timeout=1200)
    cases = tagged(g["out"], "CASE")
    gaps = tagged(g["out"], "GAP")
    if not cases or "GEN-DONE" not in g["out"]:
        raise ToolError("Pke gen did not finish:\n" + g["out"][-3000:])
    cases.sort(key=lambda c: json.dumps(c, sort_keys=True))
    cases_path = os.path.join(wd, "cases.ndjson")
    with open(cases_path, "w") as f:
        for i, c in enumerate(cases):
            c["id"] = i
            f.write(json.dumps(c) + "\n")
    gap_kinds = sorted({x["gap"] for x in gaps})
    log(f"[{prop}] {len(cases)} abstract cases; the design misses the contract on {len(gaps)} of them {gap_kinds}")

    # 2. the harness executes every case on the real library
    obs = os.path.join(wd, "observed.ndjson")
    args = ["pke", "--cases", cases_path, "--out", obs, "--seed", str(seed())]
    if thorough:
        args.append("--thorough")
    run_harness(args, timeout=6000)
    if os.path.exists(obs + ".hang"):
        # a call of the library did not return: the observed file is incomplete, the case in flight is the finding
        with open(obs + ".hang") as f:
            text = f.read()
        try:
            inflight = json.loads(text)
        except json.JSONDecodeError:
            inflight = {"raw": text[:500]}
        viols = [{"what": "a call of the library did not return while executing this case (encrypt / generate / decrypt)",
                  "cause": "hang", "detail": {"case": inflight}}]
        cov = {"evaluations": 1, "distinct_nontrivial": 0, "rule": "interrupted: a library call did not return",
               "samples": [inflight], "abstract_cases": len(cases), "states": 1, "transitions": 1}
        return finish(prop, tier, t0, viols, cov)

    # 3. TLC judges the observed executions
    c = run_module("Pke.tla", cfg, wd, "check", trace=obs, timeout=6000)
    done = tagged(c["out"], "CHECK-DONE")
    if not done and "CHECK-DONE" not in c["out"]:
        raise ToolError("Pke check did not finish:\n" + c["out"][-3000:])
    viols = []
    for line in c["out"].splitlines():
        if line.startswith('<<"VIOL"'):
            body = line[line.index(",") + 1:line.rindex(">>")].strip()
            _, js = body.split(",", 1)
            rec = json.loads(json.loads(js.strip()))
            case = rec["case"]
            # the recorded class: the stripped header is accepted (as the design predicts)
            cause = rec["cause"]
            if case.get("tamper") == "strip-metadata" and case.get("obs") in ("ok-wrong", "ok-exact"):
                cause = "metadata-stripped"
            what = WHAT.get(cause, cause)
            what += f" [{case.get('layer')}, tamper {case.get('tamper')}, expected {rec['expected']}, observed {case.get('obs')}]"
            viols.append({"what": what, "cause": cause, "detail": rec})
    viols = spread(viols)

    recs = []
    with open(obs) as f:
        for line in f:
            recs.append(json.loads(line))
    if not recs:
        raise ToolError("the harness produced no execution")
    executed = {case_key(r) for r in recs}
    missing = [c for c in cases if case_key(c) not in executed]
    if missing:
        raise ToolError(f"{len(missing)} abstract cases were not executed, e.g. {missing[0]}")
    unplaced = [r for r in recs if r["obs"] == "layout-unknown"]
    if unplaced:
        print(f"MODEL-DRIFT {len(unplaced)} byte-level cases could not be placed: the ciphertext / header is not laid out as "
              f"nonce || body || tag (e.g. {unplaced[0].get('layer')}, tamper {unplaced[0].get('tamper')}: "
              f"{unplaced[0].get('detail', {}).get('note', '')}); the untampered round trips were still judged")
    nontrivial = {case_key(r) for r in recs if r.get("exp") != "ok-exact"}
    by_obs = {}
    for r in recs:
        by_obs[r["obs"]] = by_obs.get(r["obs"], 0) + 1
    by_tamper = {}
    for r in recs:
        k = f"{r['layer']}/{r['tamper']}"
        by_tamper[k] = by_tamper.get(k, 0) + 1
    classes = {}
    for v in viols:
        k = f"{v['cause']} | {v['detail']['case'].get('layer')}/{v['detail']['case'].get('tamper')}"
        classes[k] = classes.get(k, 0) + 1
    step = max(1, len(recs) // 4)
    cov = {
        "evaluations": len(recs),
        "distinct_nontrivial": len(nontrivial),
        "rule": "abstract cases enumerated by Pke.tla: layer {pke, header} x length in "
                + ("0..80" if thorough else str(QUICK_LENS))
                + " x metadata {absent, empty, non-empty} x authentication data at generation {absent, empty, non-empty} x at "
                  "decryption {absent, empty, same, different} x key {authorized, unauthorized} x tamper {none, flip nonce / body / "
                  "tag / length prefix / encapsulation byte, truncation in every region (encapsulation, length, nonce, body, tag), "
                  "encrypted metadata cut short inside a consistently re-framed header, metadata stripped, metadata swapped between two headers, ciphertext presented to the other layer, direct AEAD "
                  "opening with the returned secret / with the seed}; "
                + ("all authentication-data pairs on every tamper class (same / different on truncations), exhaustive flips "
                   "(every byte x every bit) on the authorized / same-data sub-family. "
                   if thorough else
                   "all authentication-data pairs on untampered and stripped cases, same / different on the other tamper classes, "
                   "same on truncations; flips at first / middle / last byte x 2 bits (+10 random positions in the encapsulation). ")
                + "Every truncation length of the touched region is executed; header tampers go through serialize -> tamper -> "
                  "deserialize -> decrypt. An evaluation is one real decryption; non-trivial = distinct abstract case whose "
                  "expected verdict is not ok-exact.",
        "samples": [{k: r[k] for k in CASE_KEYS + ("exp", "obs", "detail")} for r in recs[step // 2::step][:4]],
        "abstract_cases": len(cases),
        "design_gaps_found_by_tlc": {k: sum(1 for x in gaps if x["gap"] == k) for k in gap_kinds},
        "observed_outcomes": by_obs,
        "disagreement_classes": classes,
        "executions_per_tamper": by_tamper,
        "states": max(1, c["distinct"]), "transitions": max(1, c["generated"]),
    }
    return finish(prop, tier, t0, viols, cov)
