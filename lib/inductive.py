"""Inductive arguments (Apalache) next to the bounded model checking (TLC).

C04 / C05 for all histories of one right: the inductive invariant of the chain discipline
(spec/ChainInd.tla over spec/ChainOps.tla, the operator the lifecycle model uses for refresh with
"keep old secrets"), discharged by Apalache; TLC cross-checks the reachable states of a bounded instance.

Obligations (Apalache, chains of up to 6 secrets, arbitrary state satisfying IndInv):
   Init => IndInv                      (length 0 from Init)
   IndInv /\\ Next => IndInv'           (length 1 from IndInit)
   IndInv /\\ Next => Post'             (refreshed key: newest secret first, nothing revoked, prefix of the master chain)
   IndInv /\\ Next => KeepsUsable       (action property: what the key held and the master key still holds, it still holds)
Controls that must FAIL: Sanity1 (the generated states are not trivial), SanityAct (action properties are
evaluated), and Post for the variant "stale_kept" (the defect repaired by c766bd3).

C16 / C19 for all schedules and any number of calls: spec/RngInd.tla (values drawn from the generator under its
mutex are never handed out twice), same scheme; control variant "clone" (draw from a copy taken outside the mutex).

C06 for all histories of one right: spec/FlagInd.tla (activation flag of the newest secret under disable /
update / rekey / prune / mpk), same scheme; control variant "rekey_reactivates" (repaired by c136dfc)."""
import os
import re
import shutil
import subprocess
import time

from common import SPEC, ToolError, log, tlc

CHAIN_OBLIGATIONS = [
    # (name, cinit, init, inv, length, must_hold)
    ("base: Init => IndInv", "CFixed", "Init", "IndInv", 0, True),
    ("step: IndInv /\\ Next => IndInv'", "CFixed", "IndInit", "IndInv", 1, True),
    ("post: a refreshed key follows the master chain and holds nothing revoked", "CFixed", "IndInit", "Post", 1, True),
    ("keep: a keep-refresh loses nothing the master key still holds", "CFixed", "IndInit", "KeepsUsable", 1, True),
    ("control: the generated states are not trivial", "CFixed", "IndInit", "Sanity1", 0, False),
    ("control: action properties are evaluated", "CFixed", "IndInit", "SanityAct", 1, False),
    ("control: the defect repaired by c766bd3 (stale secret kept) breaks Post", "CStale", "IndInit", "Post", 1, False),
]


FLAG_OBLIGATIONS = [
    ("base: Init => IndInv", "CFixed", "Init", "IndInv", 0, True),
    ("step: IndInv /\\ Next => IndInv'", "CFixed", "IndInit", "IndInv", 1, True),
    ("C06: once a disable was applied by an update the right is never published again", "CFixed", "IndInit", "NeverAgain", 1, True),
    ("control: the generated states are not trivial", "CFixed", "IndInit", "Sanity", 0, False),
    ("control: the defect repaired by c136dfc (rekey re-activates) breaks the invariant", "CReact", "IndInit", "IndInv", 1, False),
]

RNG_OBLIGATIONS = [
    ("base: Init => IndInv", "CFixed", "Init", "IndInv", 0, True),
    ("step: IndInv /\\ Next => IndInv'", "CFixed", "IndInit", "IndInv", 1, True),
    ("C16: the values a lock section hands out were never handed out before, to any thread", "CFixed", "IndInit", "NewFresh", 1, True),
    ("control: the generated states are not trivial", "CFixed", "IndInit", "Sanity", 0, False),
    ("control: drawing from a copy of the generator outside the mutex (seeded changes C19-encaps-clone-rng, "
     "C16-encrypt-nonce-from-rng-clone) hands a value out twice", "CClone", "Init", "NewFresh", 6, False),
]

MODULES = {
    # name -> (module, Apalache wrapper, obligations, TLC invariants, TLC property, control variant)
    "ChainInd": ("ChainInd.tla", "ChainIndA.tla", CHAIN_OBLIGATIONS, ["IndInv", "Post"], "StepOk", "stale_kept"),
    "FlagInd": ("FlagInd.tla", "FlagIndA.tla", FLAG_OBLIGATIONS, ["IndInv", "NeverAgain"], None, "rekey_reactivates"),
    "RngInd": ("RngInd.tla", "RngIndA.tla", RNG_OBLIGATIONS, ["IndInv"], "StepOk", "clone"),
}
EXTRA_CONSTANTS = {"RngInd": "CONSTANT Threads = {1, 2}\n"}
FOR_PROP = {"C04": ["ChainInd"], "C05": ["ChainInd"], "C06": ["FlagInd"], "C16": ["RngInd"], "C19": ["RngInd"]}


def apalache(wd, wrapper, cinit, init, inv, length, timeout=600):
    out_dir = os.path.join(wd, f"apalache_{wrapper}_{inv}_{cinit}_{length}")
    shutil.rmtree(out_dir, ignore_errors=True)
    cmd = ["timeout", str(timeout), "apalache-mc", "check", f"--out-dir={out_dir}", f"--cinit={cinit}", f"--init={init}",
           f"--inv={inv}", f"--length={length}", os.path.join(SPEC, wrapper)]
    t = time.time()
    p = subprocess.run(cmd, cwd=wd, capture_output=True, text=True)
    out = p.stdout + p.stderr
    shutil.rmtree(out_dir, ignore_errors=True)
    shutil.rmtree(os.path.join(wd, "_apalache-out"), ignore_errors=True)
    if "The outcome is: NoError" in out:
        res = "holds"
    elif "The outcome is: Error" in out and "invariant" in out and "violated" in out:
        res = "violated"
    elif p.returncode == 124:
        res = "timeout"
    else:
        res = "tool-error"
    return res, round(time.time() - t, 1), out


def run_for(prop, tier, wd):
    return [run(name, wd, tier) for name in FOR_PROP.get(prop, [])]


def run(name, wd, tier):
    """Returns an mc_results entry (config, violations, obligations)."""
    module, wrapper, obligations, invs, prop_, control = MODULES[name]
    res = dict(config=name, tier=tier, generated=0, distinct=0, completed=True, violations=[], obligations=[])
    # TLC: reachable states of the bounded instance, both variants
    cfg = os.path.join(wd, name + ".cfg")

    def tlc_run(variant):
        with open(cfg, "w") as f:
            f.write(f'SPECIFICATION Spec\nCONSTANT Variant = "{variant}"\n' + EXTRA_CONSTANTS.get(name, "") + 'CONSTRAINT Bounded\n'
                    + "".join(f"INVARIANT {i}\n" for i in invs)
                    + (f"PROPERTY {prop_}\n" if prop_ else "") + "CHECK_DEADLOCK FALSE\n")
        return tlc(os.path.join(SPEC, module), cfg, wd, workers=2, timeout=300)

    r = tlc_run("fixed")
    res["generated"], res["distinct"] = r["generated"], r["distinct"]
    res["obligations"].append({"name": "TLC: " + ", ".join(invs + ([prop_] if prop_ else [])) + " on the reachable states of the bounded instance",
                               "result": "violated" if r["violated"] else ("holds" if "No error" in r["out"] else "tool-error"),
                               "states": r["distinct"]})
    if r["violated"]:
        path = os.path.join(wd, name + "_counterexample.txt")
        with open(path, "w") as f:
            f.write(r["out"][-20000:])
        res["violations"].append(dict(what=f"TLC: {name} violates its invariant / step property",
                                      known=False, replay=path, invariant="/".join(invs), steps=0))
    elif "No error" not in r["out"]:
        raise ToolError(f"TLC on {module}:\n" + r["out"][-2000:])
    r2 = tlc_run(control)
    res["obligations"].append({"name": f"TLC control: variant {control} is caught", "result": "violated" if r2["violated"] else "holds"})
    if not r2["violated"]:
        raise ToolError(f"self-test: the variant {control} of {module} was not caught by TLC")
    if tier != "thorough":
        return res
    if not shutil.which("apalache-mc"):
        res["note"] = "apalache-mc not found: inductive step not discharged"
        return res
    for (oname, cinit, init, inv, length, must_hold) in obligations:
        verdict, secs, out = apalache(wd, wrapper, cinit, init, inv, length)
        res["obligations"].append({"name": "Apalache " + oname, "result": verdict, "seconds": secs, "expected": "holds" if must_hold else "violated"})
        log(f"[apalache] {name}: {oname}: {verdict} ({secs}s)")
        if verdict in ("timeout", "tool-error"):
            res.setdefault("notes", []).append(f"{oname}: {verdict}")
            if verdict == "tool-error":
                raise ToolError(f"apalache-mc on {wrapper}:\n" + out[-2000:])
            continue
        if must_hold and verdict == "violated":
            path = os.path.join(wd, f"{name}_{inv}.txt")
            with open(path, "w") as f:
                f.write(out[-20000:])
            res["violations"].append(dict(what=f"Apalache: {name}: {oname} does not hold", known=False, replay=path, invariant=inv, steps=length))
        if not must_hold and verdict == "holds":
            raise ToolError(f"self-test: control obligation '{oname}' of {name} was not violated")
    return res
