import sys,subprocess,os,json,glob
sys.path.insert(0,'/verif/lib')
from common import *
import lifecycle
wd='/tmp/w/soak'; os.makedirs(wd,exist_ok=True)
seeds=[int(x) for x in sys.argv[1:]] or [2,3]
jobs=[]
for sd in seeds:
    for prof in ["full","edits","rotation","revocation","disable","recaps","ids","big","static","grow","crowd"]:
        for a in range(0,48,8):
            out=f"{wd}/s{sd}_{prof}_{a}.ndjson"
            jobs.append((["random","--profile",prof,"--seed",str(sd),"--from",str(a),"--to",str(a+8)],"default",out))
parallel(jobs, lambda j: run_harness(j[0],features=j[1],out=j[2]), workers=12)
res=lifecycle.validate([j[2] for j in jobs], wd)
bad=[v for r in res for v in r['viols'] if v['cause']!='alias']
print("traces",len(res),"histories",sum(len(r['hist']) for r in res),"violations",sum(len(r['viols']) for r in res),"non-alias",len(bad))
for v in bad[:15]:
    print(json.dumps({k:v[k] for k in ('p','what','cause','hist','line','trace')})[:300], json.dumps(v['detail'])[:200])
ms=[r.get('model',{}) for r in res]
print("model: steps",sum(m.get('steps',0) for m in ms),"matched",sum(m.get('matched',0) for m in ms),"skipped",sum(m.get('skipped',0) for m in ms),"errors",sum(1 for m in ms if m.get('error')))
import collections
c=collections.Counter()
for m in ms:
    for d in m.get('drift',[]):
        c[(d['op'],tuple(d['what']))]+=1
for k,v in c.most_common(20): print(v,k)
for m in ms:
    for d in m.get('drift',[])[:1]:
        print(d)
    if m.get('error'): print(m['error'][:500])
