"""Shared machinery of the /verif checks: building the harness against /repo's
working tree, running harness workers and TLC, known findings, evidence."""
import json
import os
import re
import shutil
import subprocess
import sys
import time
from concurrent.futures import ThreadPoolExecutor

VERIF = os.path.dirname(os.path.dirname(os.path.abspath(__file__)))
REPO = "/repo"
HARNESS = os.path.join(VERIF, "harness")
SPEC = os.path.join(VERIF, "spec")
WORK = os.path.join(VERIF, "work")
EVID = os.path.join(VERIF, "evidence")
BIN = {"default": os.path.join(HARNESS, "target", "release", "cc-harness"),
       "alt": os.path.join(HARNESS, "target-alt", "release", "cc-harness")}
TLA_CP = "/opt/veriftools/tla/tla2tools.jar:/opt/veriftools/tla/CommunityModules-deps.jar"
NCPU = os.cpu_count() or 4


class ToolError(Exception):
    pass


def log(*a):
    print(*a, file=sys.stderr, flush=True)


def seed():
    try:
        return int(os.environ.get("VERIF_SEED", "1"))
    except ValueError:
        return 1


def workdir(prop):
    d = os.path.join(WORK, prop)
    shutil.rmtree(d, ignore_errors=True)
    os.makedirs(d, exist_ok=True)
    return d


def build_harness(features="default"):
    """Rebuilds the harness (and therefore /repo's working tree, a path
    dependency, with the verification cfg on). Cargo decides what is stale."""
    env = dict(os.environ, CARGO_NET_OFFLINE="true")
    lock = os.path.join(HARNESS, "Cargo.lock")
    if not os.path.exists(lock):
        shutil.copy(os.path.join(REPO, "Cargo.lock"), lock)
    cmd = ["cargo", "build", "--release", "--offline"]
    if features == "alt":
        cmd += ["--no-default-features", "--features", "cfg-alt", "--target-dir", "target-alt"]
    t0 = time.time()
    p = subprocess.run(cmd, cwd=HARNESS, env=env, capture_output=True, text=True)
    if p.returncode != 0:
        sys.stderr.write(p.stderr[-6000:])
        raise ToolError(f"harness build failed ({features}); the tree under /repo does not compile with the hooks on")
    log(f"[build] harness/{features} ok in {time.time()-t0:.1f}s")
    return BIN[features]


def run_harness(args, features="default", timeout=900, out=None):
    cmd = [BIN[features]] + args
    if out:
        cmd += ["--out", out]
    p = subprocess.run(cmd, capture_output=True, text=True, timeout=timeout)
    # exit 3 = watchdog reported a hanging call as an event: data, not an error
    if p.returncode not in (0, 3):
        raise ToolError(f"harness {' '.join(args[:3])} exited {p.returncode}: {p.stderr[-2000:]}")
    return p


def parallel(jobs, fn, workers=None):
    workers = workers or max(2, min(NCPU - 2, len(jobs)))
    with ThreadPoolExecutor(max_workers=workers) as ex:
        return list(ex.map(fn, jobs))


# --------------------------------------------------------------------- TLC

TLC_STATS = re.compile(r"(\d+) states generated, (\d+) distinct states found")


def tlc(module, cfg, cwd, env_extra=None, workers=1, timeout=600, xmx="2g", extra=None, deque=False, simulate=None):
    """Runs TLC; returns dict(out, generated, distinct, ok, violated)."""
    md = os.path.join(cwd, "md_" + os.path.basename(cfg).replace(".", "_") + f"_{os.getpid()}_{time.time_ns() % 1000000}")
    jopts = "-Xss1g"
    if deque:
        jopts += " -Dtlc2.tool.queue.IStateQueue=StateDeque"
    env = dict(os.environ, JAVA_TOOL_OPTIONS=jopts)
    env.update(env_extra or {})
    cmd = ["timeout", str(timeout), "java", "-XX:+UseParallelGC", f"-Xmx{xmx}", "-cp", TLA_CP, "tlc2.TLC",
           "-workers", str(workers), "-metadir", md, "-cleanup", "-noGenerateSpecTE", "-config", cfg]
    if simulate:
        cmd += ["-simulate", simulate]
    cmd += (extra or []) + [module]
    p = subprocess.run(cmd, cwd=cwd, env=env, capture_output=True, text=True)
    shutil.rmtree(md, ignore_errors=True)
    out = p.stdout + p.stderr
    gen = dist = 0
    for m in TLC_STATS.finditer(out):
        gen, dist = int(m.group(1)), int(m.group(2))
    if simulate:
        m = re.search(r"(\d+) states checked", out)
        if m:
            gen = dist = int(m.group(1))
    return {"out": out, "generated": gen, "distinct": dist, "rc": p.returncode,
            "timeout": p.returncode == 124,
            "violated": "is violated" in out or "Error: Invariant" in out or "Error: Action property" in out,
            "error": ("Error:" in out) and not ("is violated" in out)}


def ptrace(trace, cwd):
    """Validates one observed trace against CCSpec with PTrace.tla. Returns
    (violations, stats, states)."""
    r = tlc(os.path.join(SPEC, "PTrace.tla"), os.path.join(SPEC, "PTrace.cfg"), cwd,
            env_extra={"TRACE": trace}, workers=1, timeout=1500, xmx="3g")
    viols, stats, done = [], {}, False
    for line in r["out"].splitlines():
        if line.startswith('<<"PTRACE-VIOL"'):
            viols.append(json.loads(json.loads(line[line.index(",") + 1:line.rindex(">>")].strip())))
        elif line.startswith('<<"PTRACE-STATS"'):
            stats = json.loads(json.loads(line[line.index(",") + 1:line.rindex(">>")].strip()))
        elif line.startswith('<<"PTRACE-DONE"'):
            done = True
    if not done or "Consumed" in r["out"] and "violated" in r["out"]:
        tail = "\n".join(r["out"].splitlines()[-25:])
        raise ToolError(f"trace validation did not consume {trace}:\n{tail}")
    return viols, stats, r["generated"]


# ---------------------------------------------------------- known findings

def known_findings():
    with open(os.path.join(VERIF, "known_findings.json")) as f:
        return json.load(f)


def classify(prop, viols):
    """Splits violation instances of `prop` into (known, new). A known finding
    matches on property and cause."""
    kf = [f for f in known_findings()["findings"] if prop in f.get("applies_to", [f["property"]])]
    known, new = [], []
    for v in viols:
        f = next((f for f in kf if v.get("cause") == f["cause"]), None)
        (known if f else new).append((v, f))
    return known, new


# ---------------------------------------------------------------- evidence

def write_evidence(prop, tier, level, coverage, wall, violations, assumptions):
    os.makedirs(EVID, exist_ok=True)
    ev = {"property_id": prop, "tier": tier, "seed": seed(), "level": level,
          "coverage": coverage, "assumptions": assumptions, "wall_s": round(wall, 2),
          "violations": violations}
    with open(os.path.join(EVID, f"{prop}.json"), "w") as f:
        json.dump(ev, f, indent=1, default=str)
    return ev


def history_ops(trace_path, hist):
    """Extracts the ops of one history of an observed trace as a replayable op file."""
    ops, on = [], False
    with open(trace_path) as f:
        for line in f:
            e = json.loads(line)
            if e.get("k") == "reset":
                on = e.get("hist") == hist
                if on:
                    ops.append({"k": "reset"})
                continue
            if on and not e.get("probe"):
                ops.append({k: v for k, v in e.items() if k in
                            ("op", "d", "kind", "n", "hint", "after", "to", "pol", "u", "keep", "from",
                             "e", "mpk", "obj", "slot", "src") and not (k == "mpk" and e["op"] not in ("encaps", "recaps", "roundtrip"))})
    return ops


def brief_ops(ops, limit=40):
    def one(o):
        if o.get("k") == "reset":
            return "reset"
        a = [f"{k}={json.dumps(v)}" for k, v in o.items() if k not in ("op", "k")]
        return f"{o['op']}({', '.join(a)})"
    return [one(o) for o in ops[:limit]]
