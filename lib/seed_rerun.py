import sys,subprocess,json,time,os
sid=sys.argv[1]; checks=sys.argv[2:]
patch=f"/verif/seeded/{sid}/patch.diff"
def sh(c,cwd=None):
    p=subprocess.run(c,shell=True,cwd=cwd,capture_output=True,text=True); return p.returncode,p.stdout+p.stderr
rc,o=sh(f"git -C /repo apply --check {patch}")
assert rc==0,o
sh(f"git -C /repo apply {patch}")
ran=[]
try:
    for c in checks:
        t=time.time(); rc,o=sh(f"./check {c}",cwd="/verif")
        lines=[l for l in o.splitlines() if l.startswith(("VIOLATION","KNOWN-FINDING","[C","  "))]
        ran.append({"check":c,"rc":rc,"seconds":round(time.time()-t),"output":lines[:10]})
        print(sid,c,"rc=",rc,round(time.time()-t),"s", flush=True)
finally:
    sh("git -C /repo checkout -- .")
    # rebuild the harness on the restored tree (a stale binary would carry the seeded change into later manual runs)
    sh("cargo build --release --offline", cwd="/verif/harness")
mp=f"/verif/seeded/{sid}/meta.json"
m=json.load(open(mp)); m.setdefault("reruns",[]).append({"at":time.strftime("%F %T"),"ran":ran}); json.dump(m,open(mp,"w"),indent=1)
