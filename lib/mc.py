"""TLC runs on the lifecycle model (Layer M + Layer P). Filled in by configs.py."""
import os


def run_for(prop, tier, wd):
    try:
        import configs
    except ImportError:
        return []
    return configs.run_for(prop, tier, wd)
