"""Checks of the input-quantified properties (filled in incrementally)."""
CHECKS = {}


def replay(prop, path):
    return 2
