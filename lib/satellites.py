"""Checks of the input-quantified properties. Pattern: a TLA+ satellite module is
the reference semantics of the input family; TLC enumerates the family with the
expected verdicts (mode gen); the harness concretises every case on the real
library; TLC judges the observed records against the module (mode check)."""
import json
import os
import time

from common import (SPEC, VERIF, ToolError, build_harness, classify, log, run_harness, seed, tlc, workdir,
                    write_evidence)

ASSUMPTIONS = [
    "cryptography is symbolic in the specification (ideal hashes, MAC, AEAD, KEM)",
    "TLC 1.8 and the CommunityModules Json/IOUtils overrides are trusted",
    "the TLA+ module decides the expected verdict of every abstract case; the per-byte / per-spacing expansion of a case is done by the harness",
]


def tagged(out, tag):
    """JSON payloads of TLC PrintT lines <<"TAG", "json">>."""
    res = []
    pre = f'<<"{tag}", '
    for line in out.splitlines():
        if line.startswith(pre):
            body = line[len(pre):line.rindex(">>")].strip()
            try:
                res.append(json.loads(json.loads(body)) if body.startswith('"') else json.loads(body))
            except json.JSONDecodeError:
                res.append(body)
    return res


def write_cfg(path, consts, extra=""):
    with open(path, "w") as f:
        f.write("INIT Init\nNEXT Next\nCONSTANTS\n")
        for k, v in consts.items():
            f.write(f"  {k} = {v}\n")
        f.write("CHECK_DEADLOCK FALSE\n" + extra)


def run_module(module, cfg, wd, mode, trace=None, timeout=900, env=None):
    e = {"MODE": mode}
    if trace:
        e["TRACE"] = trace
    e.update(env or {})
    r = tlc(os.path.join(SPEC, module), cfg, wd, env_extra=e, workers=1, timeout=timeout, xmx="6g")
    if r["timeout"] or ("Error:" in r["out"] and "is violated" not in r["out"]):
        raise ToolError(f"TLC failed on {module} ({mode}):\n" + "\n".join(r["out"].splitlines()[-25:]))
    return r


def finish(prop, tier, t0, viols, coverage, replay_writer=None):
    """Classification, output lines, evidence. viols: list of dict(what, cause, detail)."""
    known, new = classify(prop, viols)
    seen = set()
    for v, f in known:
        key = (f["id"], v["what"])
        if key not in seen:
            seen.add(key)
            print(f"KNOWN-FINDING: property={prop} {f['what']} [{f['id']}: {v['what']}]")
    rc = 0
    wd = os.path.join(VERIF, "work", prop)
    for i, (v, _) in enumerate(new[:5]):
        path = os.path.join(wd, f"violation_{i}.json")
        with open(path, "w") as f:
            json.dump(v, f, indent=1, default=str)
        print(f"VIOLATION property={prop} replay={path}")
        log(f"  {v['what']}: {json.dumps(v.get('detail'), default=str)[:500]}")
        rc = 1
    coverage.setdefault("exhaustive", False)
    coverage["known_finding_instances"] = len(known)
    coverage["new_violation_instances"] = len(new)
    write_evidence(prop, tier, "model_checking", coverage, time.time() - t0, len(new), ASSUMPTIONS)
    log(f"[{prop}] evaluations={coverage.get('evaluations')} nontrivial={coverage.get('distinct_nontrivial')} "
        f"known={len(known)} new={len(new)} {time.time()-t0:.0f}s")
    return rc


# ------------------------------------------------------------------ C15

def c15(tier):
    t0 = time.time()
    prop = "C15"
    wd = workdir(prop)
    build_harness("default")
    cfg = os.path.join(wd, "PolicyGrammar.cfg")
    write_cfg(cfg, {"NAttr": 3, "MaxLeaves": 4 if tier == "quick" else 5})
    g = run_module("PolicyGrammar.tla", cfg, wd, "gen")
    cases = tagged(g["out"], "CASE")
    alphabet = tagged(g["out"], "ALPHABET")
    cases_path = os.path.join(wd, "cases.ndjson")
    with open(cases_path, "w") as f:
        f.write(json.dumps({"alphabet": alphabet[0]}) + "\n")
        for c in cases:
            f.write(json.dumps(c) + "\n")
    obs = os.path.join(wd, "observed.ndjson")
    maxlen = 5 if tier == "quick" else 6
    run_harness(["policy", "--cases", cases_path, "--out", obs, "--seed", str(seed()), "--maxlen", str(maxlen)],
                timeout=3000)
    c = run_module("PolicyGrammar.tla", cfg, wd, "check", trace=obs, timeout=3000)
    done = tagged(c["out"], "CHECK-DONE")
    if not done and "CHECK-DONE" not in c["out"]:
        raise ToolError("PolicyGrammar check did not finish:\n" + c["out"][-3000:])
    viols = []
    for line in c["out"].splitlines():
        if line.startswith('<<"VIOL"'):
            body = line[line.index(",") + 1:line.rindex(">>")].strip()
            idx, js = body.split(",", 1)
            rec = json.loads(json.loads(js.strip()))
            what = ("parser panicked / did not return on a string of the totality domain"
                    if rec.get("kind") == "totality" else
                    "parsed policy is not equivalent to the formula (or a name was altered / the string was rejected)")
            viols.append({"what": what, "cause": rec.get("parsed", "panic"), "detail": rec})
    with open(obs) as f:
        recs = [json.loads(l) for l in f]
    formulas = [r for r in recs if r["kind"] == "formula"]
    total = sum(r["total"] for r in recs if r["kind"] == "totality")
    nontrivial = len({json.dumps(r["ast"], sort_keys=True) for r in formulas
                      if 0 < len(r["obs_table"]) < 8 and r["ast"].get("t") != "leaf"})
    cov = {
        "evaluations": len(formulas) + total,
        "distinct_nontrivial": nontrivial,
        "rule": "formula cases: every AST with <= MaxLeaves leaves over 3 attributes x 4 printings (minimal, fully parenthesised, "
                "outer parentheses, redundant parentheses) x 2 concretisations (names incl. multi-byte and inner spaces, spacing); "
                "non-trivial = distinct non-leaf formula whose truth table is neither empty nor full. "
                f"Totality: every string of <= {maxlen} symbols over the 12-symbol alphabet of the module.",
        "samples": [{"src": r["src"], "table": r["obs_table"]} for r in formulas[5000:5003]] or [formulas[0]],
        "formula_cases": len(formulas), "totality_strings": total, "tlc_cases_generated": len(cases),
        "exhaustive": True,
        "states": max(1, c["distinct"]), "transitions": max(1, c["generated"]),
    }
    return finish(prop, tier, t0, viols, cov)


# ------------------------------------------------------------------ C08

def viol_lines(out):
    """<<"VIOL", i, "verdict", "json">> lines of a check-mode run."""
    res = []
    for line in out.splitlines():
        if line.startswith('<<"VIOL"'):
            body = line[line.index(",") + 1:line.rindex(">>")].strip()
            idx, rest = body.split(",", 1)
            rest = rest.strip()
            verdict = None
            if rest.startswith('"') and not rest.startswith('"{'):
                verdict, rest = rest[1:].split('",', 1)
            res.append((int(idx), verdict, json.loads(json.loads(rest.strip()))))
    return res


def c08_viols(tier, wd, prop, only=None):
    """Forged-key verdicts for another property's check (C09: a forged key must be refused):
    every UskMac violation except the recorded re-framing finding."""
    sub = os.path.join(wd, "uskmac")
    os.makedirs(sub, exist_ok=True)
    viols, cov = c08_core(tier, sub)
    out = [dict(v, p=[prop], hist=0, line=0) for v in viols
           if v["cause"] != "unframed" and (only is None or v["cause"] in only)]
    return out, {"forged_key_offers": cov["evaluations"], "forged_key_kinds": cov["kinds"]}


def c08(tier):
    t0 = time.time()
    prop = "C08"
    wd = workdir(prop)
    build_harness("default")
    viols, cov = c08_core(tier, wd)
    return finish(prop, tier, t0, viols, cov)


def c08_core(tier, wd):
    cfg = os.path.join(wd, "UskMac.cfg")
    write_cfg(cfg, {"WSK": 2, "WDK": 3})
    g = run_module("UskMac.tla", cfg, wd, "gen")
    if "GEN-DONE" not in g["out"]:
        raise ToolError("UskMac gen failed (an assumption of the model is false):\n" + g["out"][-3000:])
    kinds = tagged(g["out"], "CASE")
    parses = tagged(g["out"], "PARSES")
    cases_path = os.path.join(wd, "cases.ndjson")
    with open(cases_path, "w") as f:
        for c in kinds:
            f.write(json.dumps(c) + "\n")
    obs = os.path.join(wd, "observed.ndjson")
    rounds = 3 if tier == "quick" else 40
    run_harness(["uskmac", "--cases", cases_path, "--out", obs, "--seed", str(seed()), "--rounds", str(rounds)], timeout=3000)
    c = run_module("UskMac.tla", cfg, wd, "check", trace=obs, timeout=3000)
    if "CHECK-DONE" not in c["out"]:
        raise ToolError("UskMac check did not finish:\n" + c["out"][-3000:])
    viols = []
    for idx, verdict, rec in viol_lines(c["out"]):
        what = {"unframed": "a re-framed user key (same MAC input, different arrangement) is accepted for refresh",
                "accepted-foreign-arrangement": "a user key that was not issued is accepted for refresh",
                "issued-refused": "an issued user key is refused",
                "modified-on-reject": "a rejected refresh modified the user key or the master key"}.get(verdict, verdict)
        viols.append({"what": what, "cause": verdict, "detail": rec})
    drift = [l for l in c["out"].splitlines() if l.startswith('<<"DRIFT"')]
    for l in drift[:3]:
        print("MODEL-DRIFT UskMac: MAC preservation predicted by the model differs on real bytes: " + l[:300])
    with open(obs) as f:
        recs = [json.loads(l) for l in f]
    parsed = [r for r in recs if r["parsed"]]
    cov = {
        "evaluations": len(recs),
        "distinct_nontrivial": len({(r["kind"], r["pos"], r["key"], r["keep"]) for r in parsed if not r["same_key"]}),
        "rule": "every tamper kind of UskMac.tla (15 structural + 6 envelope kinds) applied by its byte-level twin at up to 6 "
                "positions of real issued keys (5 policies, 0-2 rekeys, classic and hybridised secrets), each offered to "
                "refresh_usk with both flags; non-trivial = distinct parsed mutant that differs from the issued key",
        "samples": [r for r in parsed if r["accepted"] and not r["same_key"]][:2] + [r for r in parsed if not r["accepted"]][:2],
        "kinds": [k["kind"] for k in kinds],
        "parses_of_mac_input_in_the_model": parses,
        "unparseable_mutants": len(recs) - len(parsed),
        "accepted_forgeries": len([r for r in parsed if r["accepted"] and not r["same_key"]]),
        "model_drift": len(drift),
        "states": max(1, c["distinct"]), "transitions": max(1, c["generated"]),
    }
    return viols, cov


# ------------------------------------------------------------------ C07

def c07_viols(tier, wd, prop):
    """C11: 'carries ML-KEM ciphertexts bound into the tag' -- the hybridised cases of Tamper.tla whose actions
    touch the ML-KEM ciphertexts, judged for another property's check."""
    sub = os.path.join(wd, "tamper")
    os.makedirs(sub, exist_ok=True)
    viols, cov = c07_core(tier, sub, only_hyb_E=True)
    return [dict(v, p=[prop], hist=0, line=0) for v in viols], {"mlkem_binding_mutants": cov["evaluations"]}


def c07(tier):
    t0 = time.time()
    prop = "C07"
    wd = workdir(prop)
    build_harness("default")
    viols, cov = c07_core(tier, wd)
    return finish(prop, tier, t0, viols, cov)


def c07_core(tier, wd, only_hyb_E=False):
    prop = "C07"
    cfg = os.path.join(wd, "Tamper.cfg")
    write_cfg(cfg, {"NTraps": 2})
    g = run_module("Tamper.tla", cfg, wd, "gen")
    if "GEN-DONE" not in g["out"]:
        raise ToolError("Tamper gen failed (the symbolic model admits a malleation):\n" + g["out"][-3000:])
    cases = tagged(g["out"], "CASE")
    if only_hyb_E:
        cases = [c for c in cases if c["hyb"] and len(c["actions"]) == 1 and c["actions"][0]["a"] in ("corrupt_E", "swap_E", "splice_E")]
    cases_path = os.path.join(wd, "cases.ndjson")
    with open(cases_path, "w") as f:
        for c in cases:
            f.write(json.dumps(c) + "\n")
    obs = os.path.join(wd, "observed.ndjson")
    args = ["tamper", "--cases", cases_path, "--out", obs, "--seed", str(seed())]
    if tier == "thorough":
        args.append("--thorough")
    run_harness(args, timeout=6000)
    c = run_module("Tamper.tla", cfg, wd, "check", trace=obs, timeout=3000)
    if "CHECK-DONE" not in c["out"]:
        raise ToolError("Tamper check did not finish:\n" + c["out"][-3000:])
    viols = []
    for idx, verdict, rec in viol_lines(c["out"]):
        what = {"tampered-accepted": "a modified encapsulation still decapsulates to the secret",
                "different-secret": "decapsulation returned a secret different from the encapsulated one",
                "panic": "decapsulation of a modified encapsulation panicked",
                "untouched-rejected": "the untouched encapsulation is not opened by an authorised key",
                "unauthorised-opens": "an unauthorised key opens the encapsulation"}.get(verdict, verdict)
        viols.append({"what": what, "cause": verdict, "detail": rec})
    with open(obs) as f:
        recs = [json.loads(l) for l in f]
    twin = [r for r in recs if r.get("twin_mismatch")]
    for r in twin[:3]:
        print("MODEL-DRIFT Tamper: byte-level twin and model disagree on identity: " + json.dumps(r["actions"]))
    extra = {}
    if only_hyb_E:
        cov = {"evaluations": sum(r["total"] for r in recs), "distinct_nontrivial": len(cases), "samples": recs[:1]}
        return viols, cov
    # the PKE / encrypted-metadata half of the statement is exercised by the Pke satellite's tamper classes
    try:
        import sat_pke
        if hasattr(sat_pke, "tamper_only"):
            pv, pcov = sat_pke.tamper_only(tier, wd)
            viols += pv
            extra["pke_tamper"] = pcov
    except Exception as e:  # noqa: BLE001
        extra["pke_tamper"] = f"not available: {e}"
    cov = {
        "evaluations": sum(r["total"] for r in recs),
        "distinct_nontrivial": len({json.dumps([r["n"], r["hyb"], r["actions"]]) for r in recs if not r["identity"] and r["total"] > 0}),
        "rule": "every sequence of <= 2 tamper actions of Tamper.tla (corrupt / swap / drop / duplicate traps, entries, E or F halves, "
                "splices from a second encapsulation, flavour flip) on 1- and 3-target, classic and hybridised encapsulations; single "
                "corrupt actions are expanded by the harness to 12 byte/bit positions (quick) or every byte x every bit (thorough); "
                "every mutant is decapsulated with 3 keys; non-trivial = distinct non-identity case with at least one concrete mutant",
        "samples": [r for r in recs if r["total"] > 0][:3],
        "model_cases": len(cases), "twin_mismatches": len(twin),
        "outcomes": {k: sum(r[k] for r in recs) for k in ("same", "none", "err", "diff", "panic")},
        "states": max(1, c["distinct"]), "transitions": max(1, c["generated"]),
    }
    cov.update(extra)
    return viols, cov


# ------------------------------------------------------------------ C19 (and the C16 driver)

PROGRAM_SETS = {
    "quick": [
        [["encrypt", "encaps"], ["header_md", "keygen"]],
        [["encaps", "decaps"], ["refresh", "encrypt"]],
        [["header_md", "header_md"], ["encrypt", "decaps"]],
        [["encrypt"], ["header_md"], ["keygen"]],
        [["encrypt"], ["encrypt"]],
        [["encrypt", "header_md"], ["encrypt"]],
        [["decaps_empty", "encaps"], ["encaps", "encrypt"]],
        [["encrypt_big"], ["encaps", "header_md"]],
        [["decaps", "decaps"], ["encaps", "encaps"]],
    ],
    "thorough": [
        [["encrypt_big", "encaps"], ["header_md", "encrypt_big"]],
        [["decaps_empty", "encaps"], ["encaps", "encrypt"]],
        [["decaps_empty"], ["header_md"], ["decaps"]],
        [["decaps", "decaps"], ["encaps", "encaps"]],
        [["decaps", "keygen"], ["refresh", "decaps"], ["encaps"]],
        [["encrypt", "encaps"], ["header_md", "keygen"]],
        [["encaps", "decaps"], ["refresh", "encrypt"]],
        [["header_md", "header_md"], ["encrypt", "decaps"]],
        [["encrypt", "encrypt"], ["encrypt", "encrypt"]],
        [["rekey", "header_md"], ["decaps", "encrypt"]],
        [["encrypt"], ["header_md"], ["keygen"]],
        [["encrypt", "encaps"], ["header_md"], ["refresh", "decaps"]],
        [["encrypt", "header_md", "encaps"], ["header_md", "encrypt", "keygen"]],
    ],
}


def tla_seq(x):
    if isinstance(x, list):
        return "<<" + ", ".join(tla_seq(y) for y in x) + ">>"
    return json.dumps(x)


def rng_measure(wd):
    """Number of lock sections of each call when it runs alone on the tree under test (RngCalls.tla reads it)."""
    import subprocess
    from common import BIN
    path = os.path.join(wd, "rngcalls.json")
    p = subprocess.run([BIN["default"], "conc", "--out", os.path.join(wd, "measure.ndjson"), "--measure", path],
                       capture_output=True, text=True, timeout=600)
    if p.returncode != 0:
        raise ToolError(f"conc --measure exited {p.returncode}: {p.stderr[-1500:]}")
    with open(path) as f:
        return path, json.load(f)


DOCUMENTED_SECTIONS = {"encrypt": 2, "encrypt_big": 2, "header_md": 2}


def rng_mc(wd, programs, idx, nested="{}", measured=None):
    mod = os.path.join(wd, f"MC_Rng{idx}.tla")
    with open(mod, "w") as f:
        f.write(f"---- MODULE MC_Rng{idx} ----\nEXTENDS RngConc\nP == {tla_seq(programs)}\n====\n")
    cfg = os.path.join(wd, f"MC_Rng{idx}.cfg")
    with open(cfg, "w") as f:
        f.write(f"SPECIFICATION SpecMC\nCONSTANTS\n  Programs <- P\n  Nested = {nested}\n"
                "INVARIANT Mutex\nINVARIANT Fresh\nINVARIANT PrintSchedule\nPROPERTY Terminates\n")
    env = {"JAVA_TOOL_OPTIONS": f"-Xss1g -DTLA-Library={SPEC}"}
    if measured:
        env["RNGCALLS"] = measured
    r = tlc(mod, cfg, wd, workers=1, timeout=600, xmx="4g", env_extra=env)
    return r


def run_conc(wd, sched_path, obs, stress, threads):
    """Runs the harness, resuming after a schedule that made a call hang (exit code 3)."""
    import subprocess
    from common import BIN
    start = 0
    n = sum(1 for _ in open(sched_path))
    while True:
        cmd = [BIN["default"], "conc", "--schedules", sched_path, "--out", obs, "--from", str(start),
               "--stress", str(stress), "--threads", str(threads), "--seed", str(seed())]
        p = subprocess.run(cmd, capture_output=True, text=True, timeout=3000)
        if p.returncode == 0:
            return
        if p.returncode != 3:
            raise ToolError(f"conc harness exited {p.returncode}: {p.stderr[-1500:]}")
        done = sum(1 for l in open(obs) if l.startswith('{"k":"run"'))
        if done >= n or done <= start:
            return
        start = done
        stress = 0


def c19(tier):
    t0 = time.time()
    prop = "C19"
    wd = workdir(prop)
    build_harness("default")
    states = trans = 0
    schedules = []
    measured_path, measured = rng_measure(wd)
    drift = {c: n for c, n in measured.items() if n != DOCUMENTED_SECTIONS.get(c, 1)}
    for c, n in drift.items():
        print(f"MODEL-DRIFT call={c}: takes the RNG lock {n} time(s) when run alone, the specification documents {DOCUMENTED_SECTIONS.get(c, 1)} "
              "(the interleavings are enumerated for the sections the code has)")
    for i, programs in enumerate(PROGRAM_SETS[tier]):
        r = rng_mc(wd, programs, i, measured=measured_path)
        if "Model checking completed. No error" not in r["out"]:
            path = os.path.join(wd, f"rng_mc_{i}.txt")
            with open(path, "w") as f:
                f.write(r["out"])
            print(f"VIOLATION property={prop} replay={path}")
            log("  RngConc.tla: TLC reports a deadlock / violated property for programs " + json.dumps(programs))
            return 1
        states += r["distinct"]
        trans += r["generated"]
        schedules += tagged(r["out"], "SCHEDULE")
    # binding self-test: the nested acquisition the comment in PkeAc::encrypt warns about must deadlock in the model
    st = rng_mc(wd, PROGRAM_SETS["quick"][0], 99, nested='{"encrypt"}')   # (documented sections: encrypt has two)
    selftest = "Deadlock reached" in st["out"]
    if tier == "quick" and len(schedules) > 400:
        schedules = schedules[::max(1, len(schedules) // 400)]
    sched_path = os.path.join(wd, "schedules.ndjson")
    with open(sched_path, "w") as f:
        for s in schedules:
            f.write(json.dumps(s) + "\n")
    obs = os.path.join(wd, "observed.ndjson")
    run_conc(wd, sched_path, obs, 25 if tier == "quick" else 400, 4 if tier == "quick" else 8)
    cfg = os.path.join(wd, "RngConcTrace.cfg")
    with open(cfg, "w") as f:
        f.write("SPECIFICATION SpecTrace\nCHECK_DEADLOCK FALSE\n")
    c = tlc(os.path.join(SPEC, "RngConcTrace.tla"), cfg, wd, env_extra={"TRACE": obs, "RNGCALLS": measured_path}, workers=1, timeout=1500, xmx="4g")
    if "CHECK-DONE" not in c["out"]:
        raise ToolError("RngConcTrace did not consume the observed events:\n" + c["out"][-3000:])
    viols = []
    ndrift = 0
    for line in c["out"].splitlines():
        if line.startswith('<<"VIOL"'):
            body = line[line.index(",") + 1:line.rindex(">>")].strip()
            ln, rest = body.split(",", 1)
            what = rest.strip()[1:].split('",', 1)[0]
            if what.startswith("DRIFT:"):
                # the code is structured differently from the model (sections per call, realisability of a
                # schedule): a statement about the model, not about C19
                ndrift += 1
                if ndrift <= 3:
                    print(f"MODEL-DRIFT {what[6:].strip()} (line {ln.strip()} of {os.path.basename(obs)})")
                continue
            viols.append({"what": what, "cause": what, "detail": {"line": int(ln), "trace": obs}})
    with open(obs) as f:
        recs = [json.loads(l) for l in f]
    runs = [r for r in recs if r["k"] == "run"]
    cov = {
        "states": max(1, states + c["distinct"]), "transitions": max(1, trans + c["generated"]),
        "traces_validated_against_impl": len(runs),
        "samples": [{"programs": s["programs"], "schedule": s["schedule"]} for s in schedules[:3]],
        "evaluations": len(runs),
        "distinct_nontrivial": len({json.dumps([r["programs"], r["schedule"]]) for r in runs if r["forced"] and len(set(r["schedule"])) > 1}),
        "rule": "every interleaving of lock sections that TLC enumerates from RngConc.tla for the listed programs is forced on real "
                "threads through the cfg-guarded lock wrapper; non-trivial = forced schedule in which at least two threads take the lock; "
                "plus free-running stress runs validated against RngConcTrace.tla",
        "forced_schedules": len([r for r in runs if r["forced"]]), "stress_runs": len([r for r in runs if not r["forced"]]),
        "lock_events": len([r for r in recs if r["k"] == "ev"]),
        "program_sets": PROGRAM_SETS[tier],
        "lock_sections_measured": measured, "lock_sections_differing_from_documented": drift, "model_drift_events": ndrift,
        "model_selftest_nested_encrypt_deadlocks": selftest,
        "exhaustive": tier == "thorough" or len(schedules) <= 400,
    }
    if not selftest:
        raise ToolError("RngConc self-test failed: the nested acquisition does not deadlock in the model")
    # all schedules, any number of calls: inductive invariant of the generator under its mutex (RngInd.tla)
    import inductive
    for m in inductive.run_for(prop, tier, wd):
        cov.setdefault("inductive", []).append({k: m[k] for k in ("config", "obligations", "distinct")})
        for v in m["violations"]:
            viols.append({"what": v["what"], "cause": v["what"], "detail": {"replay": v["replay"]}})
    return finish(prop, tier, t0, viols, cov)


def c16_fresh(tier, wd):
    """C16 driver: long runs of identical calls, judged by RngConcTrace.tla. Returns (violations, coverage)."""
    obs = os.path.join(wd, "fresh.ndjson")
    n = 2000 if tier == "quick" else 50000
    run_harness(["fresh", "--out", obs, "--n", str(n)], timeout=6000)
    cfg = os.path.join(wd, "RngConcTrace.cfg")
    with open(cfg, "w") as f:
        f.write("SPECIFICATION SpecTrace\nCHECK_DEADLOCK FALSE\n")
    c = tlc(os.path.join(SPEC, "RngConcTrace.tla"), cfg, wd, env_extra={"TRACE": obs}, workers=1, timeout=600, xmx="2g")
    if "CHECK-DONE" not in c["out"]:
        raise ToolError("RngConcTrace did not consume the freshness records:\n" + c["out"][-3000:])
    with open(obs) as f:
        recs = [json.loads(l) for l in f]
    viols = []
    for line in c["out"].splitlines():
        if line.startswith('<<"VIOL"'):
            body = line[line.index(",") + 1:line.rindex(">>")].strip()
            ln, rest = body.split(",", 1)
            what = rest.strip()[1:].split('",', 1)[0]
            viols.append({"p": ["C16"], "what": what, "cause": "none", "detail": recs[int(ln) - 1], "hist": 0, "line": int(ln)})
    cov = {"repeated_call_values": sum(r["total"] for r in recs), "repeated_call_categories": sorted({r["category"] for r in recs}),
           "repeated_call_threads": sorted({r["threads"] for r in recs})}
    return viols, cov


def c12(tier):
    import sat_pke
    return sat_pke.check(tier)


def c14(tier):
    import sat_wire
    return sat_wire.check(tier)


CHECKS = {"C15": c15, "C12": c12, "C14": c14, "C08": c08, "C07": c07, "C19": c19}


def replay(prop, path):
    log("replay of satellite cases: the violation file holds the concrete input; re-run the check")
    return CHECKS[prop]("quick")
